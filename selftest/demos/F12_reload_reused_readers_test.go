package reftable

import (
	"io/ioutil"
	"os"
	"testing"
)

// A reload that loses the race with a compaction of *other* tables must not close the readers it keeps.
func TestF12ReloadKeepsReusedReadersOpen(t *testing.T) {
	dir, err := ioutil.TempDir("", "f12")
	if err != nil {
		t.Fatal(err)
	}
	defer os.RemoveAll(dir)
	cfg := Config{}
	w, err := NewStack(dir, cfg)
	if err != nil {
		t.Fatal(err)
	}
	add := func(st *Stack, name string) {
		if err := st.Add(func(wr *Writer) error {
			ui := st.NextUpdateIndex()
			wr.SetLimits(ui, ui)
			return wr.AddRef(&RefRecord{RefName: name, UpdateIndex: ui, Value: make([]byte, 20)})
		}); err != nil {
			t.Fatal(err)
		}
	}
	w.disableAutoCompact = true
	add(w, "refs/heads/a")
	h, err := NewStack(dir, cfg) // h holds [A]
	if err != nil {
		t.Fatal(err)
	}
	add(w, "refs/heads/b")
	add(w, "refs/heads/c")
	names, err := h.readNames() // h reads [A B C]
	if err != nil {
		t.Fatal(err)
	}
	if ok, err := w.compactRange(1, 2, nil); !ok || err != nil { // list becomes [A BC]; B and C are unlinked
		t.Fatal(ok, err)
	}
	if err := h.reloadOnce(names, true); !os.IsNotExist(err) {
		t.Fatalf("want ENOENT, got %v", err)
	}
	// reload's retry: the list changed, so read it again and reuse A
	if err := h.reload(true); err != nil {
		t.Fatal(err)
	}
	it, err := h.Merged().SeekRef("")
	if err != nil {
		t.Fatalf("read through the reloaded handle: %v", err)
	}
	var rec RefRecord
	n := 0
	for {
		ok, err := it.NextRef(&rec)
		if err != nil {
			t.Fatalf("read through the reloaded handle: %v", err)
		}
		if !ok {
			break
		}
		n++
	}
	if n != 3 {
		t.Fatalf("got %d refs, want 3", n)
	}
}
