package reftable

import (
	"io/ioutil"
	"os"
	"testing"
)

// Two tables of one Addition: the second adds a/b while the first added a. Name checking is on (default).
func TestF15MultiTableAdditionConflict(t *testing.T) {
	dir, err := ioutil.TempDir("", "f15")
	if err != nil {
		t.Fatal(err)
	}
	defer os.RemoveAll(dir)
	st, err := NewStack(dir, Config{})
	if err != nil {
		t.Fatal(err)
	}
	tr, err := st.NewAddition()
	if err != nil {
		t.Fatal(err)
	}
	add := func(name string, idx uint64) error {
		return tr.Add(func(w *Writer) error {
			w.SetLimits(idx, idx)
			return w.AddRef(&RefRecord{RefName: name, UpdateIndex: idx, Value: make([]byte, 20)})
		})
	}
	if err := add("refs/heads/a", 1); err != nil {
		t.Fatal(err)
	}
	err2 := add("refs/heads/a/b", 2)
	if err2 == nil {
		if err := tr.Commit(); err != nil {
			t.Fatal(err)
		}
		t.Fatalf("a transaction creating refs/heads/a and refs/heads/a/b was committed: both are live now")
	}
	tr.Close()
}
