package reftable

import (
	"bytes"
	"testing"
)

// The writer must either reject a ref record or write something that reads back as that record.
func TestF20IllFormedRefRecord(t *testing.T) {
	for _, rec := range []RefRecord{
		{RefName: "refs/a", UpdateIndex: 1, Value: bytes.Repeat([]byte{1}, 20), Target: "refs/heads/x"},
		{RefName: "refs/a", UpdateIndex: 1, TargetValue: bytes.Repeat([]byte{2}, 20)},
		{RefName: "refs/a", UpdateIndex: 1, Value: bytes.Repeat([]byte{1}, 7)},
	} {
		buf := &bytes.Buffer{}
		w, err := NewWriter(buf, &Config{})
		if err != nil {
			t.Fatal(err)
		}
		w.SetLimits(1, 1)
		r1 := rec
		if err := w.AddRef(&r1); err != nil {
			continue // rejected: fine
		}
		if err := w.AddRef(&RefRecord{RefName: "refs/b", UpdateIndex: 1, Value: bytes.Repeat([]byte{3}, 20)}); err != nil {
			t.Fatal(err)
		}
		if err := w.Close(); err != nil {
			t.Fatal(err)
		}
		r, err := NewReader(&ByteBlockSource{buf.Bytes()}, "x")
		if err != nil {
			t.Fatal(err)
		}
		it, err := r.SeekRef("")
		if err != nil {
			t.Fatal(err)
		}
		var got []RefRecord
		for {
			var g RefRecord
			ok, err := it.NextRef(&g)
			if err != nil {
				t.Errorf("accepted %s, but the table does not read back: %v", rec.String(), err)
				break
			}
			if !ok {
				break
			}
			got = append(got, g)
		}
		if len(got) != 2 || got[0].String() != rec.String() || got[1].RefName != "refs/b" {
			t.Errorf("accepted %s, read back %v", rec.String(), got)
		}
	}
}
