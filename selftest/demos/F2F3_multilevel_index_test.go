package reftable

import (
	"bytes"
	"fmt"
	"testing"
)

// With a small block size the ref index needs more than one level: every ref must stay reachable by SeekRef, and a
// following section must be readable.
func TestF2F3MultiLevelIndex(t *testing.T) {
	buf := &bytes.Buffer{}
	w, err := NewWriter(buf, &Config{BlockSize: 128})
	if err != nil {
		t.Fatal(err)
	}
	const N = 3000
	w.SetLimits(1, 1)
	var names []string
	for i := 0; i < N; i++ {
		names = append(names, fmt.Sprintf("refs/heads/branch%05d", i))
	}
	for _, n := range names {
		if err := w.AddRef(&RefRecord{RefName: n, UpdateIndex: 1, Value: bytes.Repeat([]byte{byte(len(n))}, 20)}); err != nil {
			t.Fatal(err)
		}
	}
	if err := w.AddLog(&LogRecord{RefName: "refs/heads/branch00000", UpdateIndex: 1, New: make([]byte, 20), Old: make([]byte, 20), Message: "m"}); err != nil {
		t.Fatal(err)
	}
	if err := w.Close(); err != nil {
		t.Fatal(err)
	}
	r, err := NewReader(&ByteBlockSource{buf.Bytes()}, "x")
	if err != nil {
		t.Fatal(err)
	}
	missing := 0
	for _, n := range names {
		it, err := r.SeekRef(n)
		if err != nil {
			t.Fatalf("SeekRef(%s): %v", n, err)
		}
		var rec RefRecord
		ok, err := it.NextRef(&rec)
		if err != nil {
			t.Fatalf("NextRef after SeekRef(%s): %v", n, err)
		}
		if !ok || rec.RefName != n {
			missing++
		}
	}
	if missing > 0 {
		t.Fatalf("%d of %d refs are not found by SeekRef", missing, N)
	}
	it, err := r.SeekLog("refs/heads/branch00000", 0xffffffffffffffff)
	if err != nil {
		t.Fatalf("SeekLog: %v", err)
	}
	var l LogRecord
	if ok, err := it.NextLog(&l); err != nil || !ok {
		t.Fatalf("NextLog: %v %v", ok, err)
	}
}
