package reftable

import (
	"bytes"
	"testing"
)

// A reflog tombstone written with the default options must read back as a tombstone.
func TestF4LogTombstoneSurvivesDefaultOptions(t *testing.T) {
	buf := &bytes.Buffer{}
	w, err := NewWriter(buf, &Config{})
	if err != nil {
		t.Fatal(err)
	}
	w.SetLimits(1, 1)
	del := LogRecord{RefName: "refs/heads/a", UpdateIndex: 1}
	if !del.IsDeletion() {
		t.Fatal("not a deletion to begin with")
	}
	if err := w.AddLog(&del); err != nil {
		t.Fatal(err)
	}
	if err := w.Close(); err != nil {
		t.Fatal(err)
	}
	r, err := NewReader(&ByteBlockSource{buf.Bytes()}, "x")
	if err != nil {
		t.Fatal(err)
	}
	it, err := r.SeekLog("", 0xffffffffffffffff)
	if err != nil {
		t.Fatal(err)
	}
	var got LogRecord
	ok, err := it.NextLog(&got)
	if err != nil || !ok {
		t.Fatal(ok, err)
	}
	if !got.IsDeletion() {
		t.Fatalf("tombstone read back as a live entry: %#v", got)
	}
}
