#!/bin/bash
# usage: mutfunc.sh 'sed-expression' file func...   - verify functions on a scratch copy of /repo's working tree with one edit
set -u
D=$(mktemp -d /tmp/mutwt.XXXXXX)
cp -r /repo/. $D/ && rm -rf $D/.git
sed -i "$1" $D/$2
if diff -q /repo/$2 $D/$2 >/dev/null; then echo "MUTATION DID NOT CHANGE $2"; rm -rf $D; exit 2; fi
diff /repo/$2 $D/$2
shift 2
(cd $D && GOFLAGS=-mod=mod GOPROXY=off GOSUMDB=off GOTOOLCHAIN=local go build ./... 2>&1 | head -5)
/verif/bin/rtv func -repo $D -t ${T:-20} "$@" 2>&1 | grep -v '^   ok ' | tail -${N:-15}
rm -rf $D
