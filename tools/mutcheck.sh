#!/bin/bash
# usage: mutcheck.sh PROP patchfile|'sed-expr file'   - run a property check on a scratch copy of /repo's working tree with a patch or an edit
set -u
P=$1; shift
D=$(mktemp -d /tmp/mutwt.XXXXXX)
cp -r /repo/. $D/ && rm -rf $D/.git
if [ -f "$1" ]; then (cd $D && git init -q . && git apply "$1") || { echo "patch failed"; rm -rf $D; exit 2; }
else sed -i "$1" $D/$2; if diff -q /repo/$2 $D/$2 >/dev/null; then echo "MUTATION DID NOT CHANGE $2"; rm -rf $D; exit 2; fi; diff /repo/$2 $D/$2 | head -6; fi
(cd $D && GOFLAGS=-mod=mod GOPROXY=off GOSUMDB=off GOTOOLCHAIN=local go build ./... 2>&1 | head -5)
RTV_OUT_DIR=$D/out /verif/bin/rtv check -repo $D --property $P --tier quick 2>&1 | grep -E "^(VIOLATION|KNOWN|C[0-9]+:)" | sed "s#$D/out/replays/##" | cut -c1-260
rm -rf $D
