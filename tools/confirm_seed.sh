#!/bin/bash
# usage: confirm_seed.sh <prop> <letter> [needs-text]
# Confirms a seeded mutant in its scratch worktree (suite passes with it, demo fails with it, demo passes without),
# then stores it under /verif/seeded/<prop>-<letter>/ and runs the property's quick check against it in /repo.
set -u
P=$1; L=$2
WT=${SEED_WT:-/tmp/seedwt/$P}
OUT=${SEED_OUT:-/tmp/seedout/$P}
STORE=${5:-$P-$L}
export GOFLAGS=-mod=mod GOPROXY=off GOSUMDB=off GOTOOLCHAIN=local
cd $WT || exit 2
git checkout -q -- . ; git clean -fdq
git apply --check $OUT/$L.diff || { echo "patch does not apply"; exit 2; }
cp $OUT/${L}_demo_test.go $WT/seed_demo_${L}_test.go
demo_clean=$(go test -vet=off -count=1 -run 'Seed' . 2>&1 | tail -1)
git apply $OUT/$L.diff
suite=$(go test -vet=off -count=1 $(go list ./... ) 2>&1 | grep -v "no test files" | tail -1)
rm -f $WT/seed_demo_${L}_test.go
suite_nodemo=$(go test -vet=off -count=1 ./... 2>&1 | grep -v "no test files" | tail -1)
cp $OUT/${L}_demo_test.go $WT/seed_demo_${L}_test.go
demo_mut=$(go test -vet=off -count=1 -run 'Seed' . 2>&1 | grep -E "^(--- FAIL|FAIL|ok|panic)" | head -3 | tr '\n' ' ')
git checkout -q -- . ; git clean -fdq
echo "suite with mutant (no demo): $suite_nodemo"
echo "demo without mutant: $demo_clean"
echo "demo with mutant: $demo_mut"
case "$suite_nodemo" in ok*) ;; *) echo "REJECT: suite fails with mutant"; exit 1;; esac
case "$demo_clean" in ok*) ;; *) echo "REJECT: demo fails on clean tree"; exit 1;; esac
case "$demo_mut" in *FAIL*|*panic*) ;; *) echo "REJECT: demo does not fail with mutant"; exit 1;; esac
D=/verif/seeded/$STORE
mkdir -p $D
cp $OUT/$L.diff $D/patch.diff
cp $OUT/${L}_demo_test.go $D/demo_test.go
# run the check on a scratch copy of /repo's working tree with the patch applied (never in /repo itself: its
# working tree may hold uncommitted contract edits)
SC=$(mktemp -d /tmp/seedrepo.XXXXXX)
cp -r /repo/. $SC/ && rm -rf $SC/.git
(cd $SC && git init -q . && git apply $D/patch.diff) || { echo "patch does not apply to /repo"; rm -rf $SC; exit 2; }
PROPS="${4:-$P}"
res=""
for Q in $PROPS; do
  r=$(cd /verif && RTV_OUT_DIR=/tmp/seedcheck-$STORE ${RTV:-bin/rtv} check -repo $SC --property $Q --tier quick 2>&1 | grep -E "^(VIOLATION|KNOWN|C[0-9]+:)" | cut -c1-300)
  res="$res
$r"
done
rm -rf $SC /tmp/seedcheck-$STORE
echo "check: $res"
python3 - "$P" "$L" "$suite_nodemo" "$demo_clean" "$demo_mut" "$res" "${3:-}" "$OUT" "$STORE" <<'PY'
import json,sys
P,L,suite,dc,dm,res,needs,OUT,STORE=sys.argv[1:10]
notes=open(f'{OUT}/notes.md').read()
meta={"property":P,"mutant":L,"breaks":P,"needs_to_manifest":needs or "see notes.md excerpt","source":"independent sub-agent given only the property text and a scratch worktree",
 "confirmed":{"suite_with_mutant":suite,"demo_without_mutant":dc,"demo_with_mutant":dm,"commands":"tools/confirm_seed.sh (apply patch in scratch worktree; go test ./...; go test -run SeedDemo with and without the patch)"},
 "rtv_check_output":res.splitlines(),"detected":"VIOLATION" in res}
json.dump(meta,open(f'/verif/seeded/{STORE}/meta.json','w'),indent=1)
open(f'/verif/seeded/{STORE}/notes.md','w').write(notes)
PY
