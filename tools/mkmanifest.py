#!/usr/bin/env python3
"""Regenerates /verif/MANIFEST.json from the table below. Run after claiming or withdrawing a property."""
import json, os, subprocess
HERE = os.path.dirname(os.path.dirname(os.path.abspath(__file__)))

TRUST = ("Trusted: rtv's go/ssa->SMT encoding of Go; go/packages+go/ssa (x/tools v0.29.0); z3 4.8.12 / z3 5.1.0 / cvc5 1.0.3 "
         "(unsat from any one is believed); extern contracts and built-in models of the standard library listed in the evidence file; "
         "interface contracts at dynamic calls; ghost models of bytes.Buffer/io/zlib and of the immutable table file behind a BlockSource.")

CLAIMED = {
 "C18": dict(
   text=("Deductive proof, for all byte strings and all iteration counts, that every run-time check (index, slice bounds, nil "
         "dereference, type assertion, make size, explicit panic) on the read path is safe: NewReader, SeekRef/SeekLog/RefsFor and the "
         "block/table iterators down to the varint decoder, each function checked modularly against its contract; make sizes are proved "
         "linear in the input size; loops carrying a decreases clause are proved terminating. This is the level the property needs: it "
         "quantifies over all inputs, and the obligations are quantifier-light integer/array formulas the solvers decide."),
   note=(TRUST + " Not decided: termination of loops without a decreases clause (listed in the evidence), allocation inside zlib/bytes.Buffer, "
         "stdlib internals. The BlockSource is assumed to return the same bytes for the same range (immutable table file)."),
   design="4/C18", technique="contract-based deductive verification: nopanic/decreases obligations over go/ssa, discharged by SMT"),
}

CLAIMED["C17"] = dict(
   text=("Deductive proof on the real chooser code, for all size vectors of any length (sizes in [1,2^40), fewer than 2^20 tables): log2 equals the "
         "floor-log2 table of the statement; sizesToSegments partitions the stack into maximal runs of one size class; "
         "suggestCompactionSegment returns nil exactly when no two adjacent tables share a size class, and otherwise a contiguous range of "
         "at least two tables inside the stack; all loops terminate. Proof is the right level: these are per-call postconditions over unbounded inputs."),
   note=(TRUST + " Not decided by contracts: the amortised depth bound 2*log2(N) and the N*log2(N) rewrite bound for all N are whole-history "
         "potential-function arguments that no contract on a single call expresses; strict progress of a compaction is part of the C04/C05 commit guard."),
   design="4/C17", technique="contract-based deductive verification: functional postconditions and loop invariants over go/ssa, discharged by SMT")
CLAIMED["C03"] = dict(
   text=("Deductive proof on the real merged-iterator code, for any number of tables and any records: pqLess is the order of the statement "
         "(key ascending, newer table first among equal keys); the binary-heap invariant is preserved by add and remove, elements are preserved, "
         "remove returns the root; by an inductive lemma the root is the least entry; nextEntry returns that least entry and leaves only strictly "
         "greater keys in the queue (so keys come out strictly increasing, each once, older duplicates consumed); Next never yields a deletion "
         "record when the view suppresses deletions; Merged.seekRecord builds one sub-iterator per table, for the requested record type, and passes "
         "the view's flag on; NewMerged enforces increasing update-index ranges and one hash id."),
   note=(TRUST + " Assumed: a sub-iterator's Next does not write the queue of the merged iterator that owns it (ownership); LogRecord.key is a "
         "function of (RefName, UpdateIndex) (trusted definitional contract). Not decided: that each sub-iterator yields its table's records in "
         "ascending order from the seek key (that is C01/C02 for table iterators), and the overlay statement as an equality of whole sequences."),
   design="4/C03", technique="contract-based deductive verification: heap invariant, inductive root-min lemma, merge-step postconditions, discharged by SMT")

FS = (" The filesystem is a trusted ghost model seen from one handle (no I/O faults: O_EXCL create fails only with EEXIST, "
      "rename and remove of owned paths succeed; other handles may change tables.list at any filesystem operation unless this handle holds "
      "tables.list.lock). The step from 'every filesystem action of every handle meets its guard' to 'all interleavings' is the rely/guarantee "
      "argument of DESIGN.md section 3.2, not mechanised. readNames, reload, checkAddition, formatName, NewFileBlockSource and the Writer "
      "entry points are trusted at the protocol level (contracts listed in the evidence); the transaction callback is assumed to write only its Writer.")
CLAIMED["C08"] = dict(
   text=("Deductive proof on the real stack code that every removal or rename of a *.lock path happens only while this handle holds that lock "
         "(guard G1, an obligation at every os.Remove/os.Rename call site on every path, including deferred closures), that a lock is granted only by a "
         "successful O_EXCL create, and that every operation releases exactly the locks it took on all return paths (NewAddition, Addition.Add/Commit/Close, "
         "compactRange with its table locks, AutoCompact, CompactAll, Add, Clean, Close)."),
   note=TRUST + FS, design="3.1, 4/C08", technique="contract-based deductive verification: ghost lock-ownership state, guard obligations at every filesystem call site")
CLAIMED["C16"] = dict(
   text=("Deductive proof that no operation leaves a lock or a temporary file behind on any return path (held and ownsTmp only shrink across Add, "
         "NewAddition, Addition.Add/Commit/Close, compactLocked, compactRange, AutoCompact, CompactAll, Clean, Close), and that Clean and Close do not "
         "panic on any stack, including an empty one."),
   note=TRUST + FS + " Not decided: that at global quiescence the directory holds exactly tables.list and the listed tables (needs the garbage-collection guard G3 for table files, see C05).",
   design="3.1, 4/C16", technique="contract-based deductive verification: ghost ownership of locks and temp files, nopanic obligations")
CLAIMED["C04"] = dict(
   text=("Deductive proof of the safety core of the transactional store: tables.list is replaced only by a rename from this handle's own lock file, "
         "held since before the list was last compared with the handle's view, and only by a list that extends the current list with this transaction's "
         "tables (Addition.Commit) or replaces one contiguous range of it by at most one table (compactRange) - guard G2 at both rename sites with explicit "
         "witnesses; the Addition invariant (names = current list ++ new tables, lock held) is kept by NewAddition/Add/Commit/Close; Add commits at most one "
         "transaction, never reports ErrLockFailure for a committed one, and a lost lock race in the follow-up compaction is contention, not an error."),
   note=TRUST + FS + " Not decided: linearizability as a relation on concurrent histories; that the follow-up auto-compaction cannot fail for other reasons without I/O faults; reload is assumed to succeed (no fault, no 2.5 s livelock).",
   design="3, 4/C04", technique="contract-based deductive verification: ghost list content, commit guard with witnesses, transaction invariant")
CLAIMED["C09"] = dict(
   text=("Deductive proof that UpToDate returns true exactly when the handle's tables are the names in tables.list in the same order, that NewAddition "
         "succeeds only after that comparison under the lock and otherwise releases the lock and returns ErrLockFailure, and that compactRange commits only "
         "after re-checking the list under the re-taken lock (the commit guard G2 fails for a stale view)."),
   note=TRUST + FS + " Not decided here: that the handle is refreshed after a failed Add (reload is trusted) and the retry's update index.",
   design="4/C09", technique="contract-based deductive verification: exact UpToDate postcondition, commit guard")

CLAIMED["C11"] = dict(
   text=("Deductive proof of the per-step clauses of RefsFor on the real iterators: the indexed iterator returns a record only if its value or "
         "peeled value equals the object id, with the update index made absolute exactly as the seek iterator does (same stored delta + table minimum); "
         "the filtering iterator returns only matching records and, on a merged view, only the view's own record of the candidate's name (a deleted or "
         "re-pointed candidate is skipped, it neither ends the iteration nor is replaced by a neighbour); Merged.RefsFor merges one candidate iterator per "
         "table and re-checks against the same merged view; Reader.RefsFor never returns a nil iterator and falls back to the scan when the index has no positions."),
   note=(TRUST + " Not decided: that the object index lists every ref block containing the id (writer side, C14), completeness of the result (no matching ref "
         "is missed), and that an index whose position list was omitted is never answered with an empty result (seeded mutant C11-A is not caught)."),
   design="4/C11", technique="contract-based deductive verification: step postconditions with ghost bookkeeping (stored delta, last sought name)")
CLAIMED["C19"] = dict(
   text=("Deductive frame proof: every function reachable from Reader/Merged SeekRef, SeekLog, RefsFor and from Iterator.NextRef/NextLog has a modifies "
         "clause that names no field of Reader, Merged, blockReader, header/footer, a block source or a package variable, and every store, append, copy and callee "
         "frame in its body is proved to stay inside that clause or in memory allocated by the call itself. So concurrent readers write no shared location."),
   note=(TRUST + " The ghost models buflen/bufdata/lastDelta/lastSought are specification state, not memory. Not decided: races inside the standard library "
         "((*os.File).ReadAt is documented safe; a block source that shares a file offset, seeded mutant C19-A, is outside the frame of the package's own stores), "
         "and determinism of results beyond the functional contracts of C03/C11/C18."),
   design="4/C19", technique="contract-based deductive verification: frame (modifies) obligations at every store and call")

CLAIMED["C05"] = dict(
   text=("Deductive proof on the real stack code of the referential-integrity core: (G3) at every os.Remove call site on every path - Addition.Close, "
         "the post-commit deletion loop and every error path of compactRange, compactLocked, Clean, Close and reloadOnce's garbage collection - the removed "
         "path is this call's own unpublished temp file, or is not named by tables.list (under the lock), or is not named by the list this handle last read or "
         "wrote (without the lock); (G2) the list is replaced only by a list whose every name is a table already in place, with distinct names none of which "
         "was ever replaced before; (G5) a table file appears only by renaming this handle's own closed temp file; three step lemmas prove that an action "
         "meeting its guard keeps 'every listed table is in place' (I1), so I1 holds between any two filesystem actions of the handle. NewMerged, called by "
         "every reload, rejects a list whose update-index ranges are not strictly increasing or whose hash ids differ."),
   note=TRUST + FS + (" Rely conditions on other handles (they keep listed tables in place, never re-list a replaced name, keep names distinct) are assumed at every "
         "filesystem call and guaranteed by the same obligations on this code; the composition over handles is the argument of DESIGN.md 3.2. Table names are "
         "assumed unique (32 random bits, formatName). Not decided: that the ranges of the tables an Addition commits are increasing (seeded mutant C05-B is not "
         "caught: the writer's update-index limits are not modelled), and that a listed file is a complete valid table (C14). reload's retry loop is trusted; "
         "its precondition for reuseOpen=false is checked at every caller."),
   design="3.1-3.2, 4/C05", technique="contract-based deductive verification: ghost directory state, guard obligations G2/G3/G5 at every filesystem call site, step lemmas for the invariant")
CLAIMED["C06"] = dict(
   text=("Deductive proof of the ordering facts crash-safety rests on, as obligations on the real code: tables.list changes only by one atomic rename, whose "
         "guard G2 demands that the new list is the old one plus this transaction's tables (Add/Commit) or with one contiguous range replaced by at most one "
         "table (compaction) and that every table it names is already in place; no listed table is unlinked before that rename (G3 is evaluated against the list "
         "as it is at each unlink); temp files are never listed. The step lemmas give the invariant at every boundary between two filesystem actions, i.e. at every "
         "crash point, so after a crash the list is the previous or the next committed list and names only existing tables."),
   note=TRUST + FS + (" A crash is modelled as stopping between two filesystem actions (process crash, no power loss). Not decided by contracts: that the *contents* seen after "
         "reopening equal the contents before (needs C01/C07), leftover lock and temp files after a crash (C16 covers normal returns only), and the claim about a second "
         "process continuing after the crash beyond the rely conditions."),
   design="3.2, 4/C06", technique="contract-based deductive verification: commit-order guards at every filesystem call site, step lemmas (invariant at every crash point)")
CLAIMED["C10"] = dict(
   text=("Deductive proof on the real reloadOnce: on success the handle's tables are exactly the names of the list version that was just read, in order (no table "
         "skipped, none added); on failure the view is left as it was; in both cases every reader in the view is open (a ghost records Reader.Close) - readers "
         "taken over from the old view are never closed, only readers opened by the failing call are; the map of reusable readers is proved consistent (filed under "
         "their own names). NewStack returns a handle satisfying the stack invariant; every operation that reloads (Add, Commit, compactRange, Clean) keeps "
         "'all readers open'. reload(false) is proved to be called only when every table of the old view has left the list for good."),
   note=TRUST + FS + (" reload's retry loop (clock, reflect.DeepEqual, rebuilding the merged view) is trusted, and so is that readers keep deleted files readable (POSIX). "
         "Not decided: that reads through the view return the records of that version (C01/C03), behaviour under real concurrency beyond the rely conditions."),
   design="4/C10", technique="contract-based deductive verification: ghost reader-closed state, snapshot postcondition of reloadOnce, map invariants")

CLAIMED["C07"] = dict(
   text=("Deductive proof of the step contracts of compaction on the real writeCompact/compactLocked/compactRange: the tables merged are exactly "
         "st.stack[first..last] of the handle's view (which the commit guard ties to the current list), read from the very start (SeekRef(\"\"), "
         "SeekLog(\"\", MaxUint64)); the writer's update-index limits are the first table's minimum and the last table's maximum; in every loop iteration "
         "the record the merged iterator produced is handed to the writer exactly once and field for field unchanged, the only exception being a ref tombstone "
         "when the range starts at the oldest table (first == 0); both loops end only when the iterator reports exhaustion; the list replacement commits exactly "
         "the range that was merged (the G2 witnesses are the ghost record of what writeCompact merged). With C03 (merge order, newest wins, no suppression in a "
         "raw merge) these are the per-step facts from which 'readers see the same' follows."),
   note=TRUST + FS + (" Byte slices of a record are compared by the memory they refer to (no store to the record between NextRef and AddRef), not by content. Not decided "
         "by contracts: the end-to-end equality of the views before and after (needs the table round trip C01 and an induction over the record sequence), nested and "
         "repeated compactions as a history property. Writer.AddRef/AddLog are trusted to encode the record they are given (C01/C14)."),
   design="4/C07", technique="contract-based deductive verification: ghost record of the last record yielded/taken, loop-step invariants, commit witnesses")
CLAIMED["C13"] = dict(
   text=("Deductive proof on the real writeCompact that a reflog record is dropped if and only if it is expired by the rule of the statement (older than the time "
         "limit, or update index above the maximum or below the minimum of the window; 0 = no limit) - stated as a spec function taken from the statement, not from "
         "the code - and that every other log record is handed to the writer field for field unchanged; ref records are never affected by the expiry configuration; "
         "CompactAll passes its configuration unchanged down to the merge (ghost record checked at the commit), and a compaction with an expiry configuration is never "
         "skipped as trivial (progress postcondition of compactRange)."),
   note=TRUST + FS + (" Message normalisation by Writer.AddLog (trailing newline) is outside the comparison (the record is compared as given to AddLog). Not decided: the "
         "byte-for-byte equality after the round trip through the table format (C01)."),
   design="4/C13", technique="contract-based deductive verification: expiry predicate as spec function, iff loop-step invariant")

CLAIMED["C14"] = dict(
   text=("Deductive proof of the block-level clauses of the format on the real writer code (the table-level clauses are listed as not decided): the block size "
         "accepted by NewWriter fits the 3-byte block-length field; putU24 stores exactly its argument (which must fit 24 bits at every call site); putVarInt emits 1..10 bytes, "
         "continuation bits on all but the last; encodeKey marks an entry as restart exactly when it shares no prefix with its predecessor and always after an "
         "empty predecessor; the block writer's representation invariant (entry area after the 4-byte header, room reserved for the restart table and its count, at most "
         "65535 restarts, restart offsets strictly increasing inside the entry area, block shorter than 2^24) is established by newBlockWriter and kept by add/registerRestart, a "
         "refused add leaves the block unchanged; finish writes the block length into the header, every restart offset as 3 bytes and the restart count as 2 bytes, "
         "exactly (no truncation); Writer.add returns only for a key strictly greater than the previous one and keeps the writer invariant; flushBlock ends the "
         "block under construction and appends exactly one index entry naming the block's last key and its position; finishSection never replaces a block that holds "
         "entries without flushing it, and leaves no pending index entry behind for the next section (every level of a multi-level index is complete); AddLog hands a "
         "reflog tombstone on as a tombstone and changes nothing but the message."),
   note=(TRUST + " Assumed: the value encoders of the four record types stay inside the buffer they are given (interface contract, not yet verified); in-memory zlib "
         "compression does not fail; finishPublicSection, dumpObjectIndex, Writer.Close, AddRef, paddedWriter.Write and headerBytes are trusted. Not decided: "
         "header/footer/CRC, section positions, padding bytes, that the index offsets are the positions the reader follows, object index (F19), update indices inside "
         "the header range, and agreement with an independent decoder."),
   design="4/C14 (layers L1, L2, L4 only)", technique="contract-based deductive verification: representation invariant of the block writer, exact-layout postconditions, field-width preconditions")

CLAIMED["C01"] = dict(
   text=("Deductive proof of the two innermost codec layers of the round trip, on the real encoder and decoder: (layer 1) for every 64-bit value, getVarInt applied "
         "to what putVarInt wrote returns that value and consumes exactly the bytes written - both functions are specified against one closed form of the format's "
         "offset varint for 1..10 bytes, proved by loop invariants; (layer 2) for every previous key, key and 3-bit value type, decodeKey accepts what encodeKey wrote, "
         "consumes exactly those bytes and returns the same value type and the same key, character by character (prefix from the previous key, suffix from the buffer); "
         "plus the writer-side facts shared with C14 (block invariant, ascending keys, a reflog tombstone is encoded as a tombstone with no value bytes); "
         "(layer 3, partial) RefRecord.encode and RefRecord.decode are specified against the byte layout of the value (update-index varint first, then the hash) and lemmaRefValueRoundTrip gives, "
         "for every one-hash ref record, acceptance, consumed length, update index, name and hash byte by byte (lemmaRefTwoHashRoundTrip: the same for records with a value and a peeled value; lemmaRefSymbolicRoundTrip: the same for symbolic refs, target character by character; lemmaRefDeletionRoundTrip: a ref deletion is its update index alone and reads back as a deletion; "
         "lemmaIndexValueRoundTrip: the same for the child position of index records); decodeRestartKey reads exactly the full key stored at a restart and rejects only a malformed entry; "
         "newBlockReader computes the distance to the next block by the format; the deletion predicates are the ones of the statement."),
   note=(TRUST + " Not decided - the larger part of the statement: the value codecs of log and obj records (rest of layer 3), the block writer/reader pair and restart "
         "handling on the read side (layer 4), sections, index, padding, footer, zlib log blocks (pinned-tree defect F17 is not reported), and therefore the end-to-end "
         "statement 'reads back exactly the records written'. No bounded stand-in replaces them."),
   design="4/C01 (layers L1, L2, part of L3), 10.8, 10.10", technique="contract-based deductive verification: encoder and decoder against one closed-form spec, round-trip lemmas over the two contracts")

CLAIMED["C02"] = dict(
   text=("Deductive proof of the seek logic on the real code, for every key and every writer-produced table, relative to an abstract view of such a table: "
         "blockReader.seek (binary search over the restart table by the exact guarantee of sort.Search, one step back, linear scan) returns an iterator positioned at a "
         "record boundary of the block's scan such that the record before it is below the key and the record at it (if any) is at or above; restartOffset reads entry i of the "
         "restart table; tableIter.nextBlock and tableIter.Next walk the block chain of the view (proved from the block-level step); Reader.seekLinear skips exactly the "
         "blocks whose first key is at or below the key and lands in the right block; Reader.seekIndexed descends the index - at every level the entry it follows is the first whose "
         "last key is at or above the key - and lands in the child block with everything before it below the key; Reader.seek/seekRecord/SeekRef/SeekLog return that iterator, the section "
         "start for the empty key, or an empty iterator only when the section is absent or every key is below the sought key. With keys ascending along the scan (part of the view) "
         "this is 'the scan suffix of records at or after the key', with or without an index and for any number of index levels."),
   note=(TRUST + " ASSUMED, conditional hypothesis of every clause (tabM/blkModel): the abstract view of a writer-produced table - keys strictly ascending in and across blocks, restart table "
         "entries are the offsets of records stored with full keys, first record a restart, index entries name the last key and position of existing child blocks at every level, the "
         "reader's section table names the first block of each section and of its top index. That is C14 plus the decode side of C01 (layers 3-4), which are not proved; three clauses tie the real decoders to the view without "
         "being checked against their bodies (assumes[...] on decodeRestartKey, blockIter.Next, Reader.newBlockReader; listed in the evidence). sort.Search is modelled by the "
         "invariant of binary search (f(result-1) false, f(result) true), presuming the predicate's value does not depend on what it writes. Not decided: 'a seek never fails on a writer-produced "
         "table' (the error latch written by the search predicate is havocked), the final step from the local landing condition to equality of whole sequences (a pure sortedness argument, stated in DESIGN.md), "
         "Merged seeks (C03)."),
   design="4/C02, 10.10", technique="contract-based deductive verification: abstract block/table view as conditional hypothesis, binary-search guarantee, loop invariants of the linear scan and of the index descent")

CLAIMED["C12"] = dict(
   text=("Deductive proof of the name rules against an abstract set of live refs, on the real refname.go: validateRefname accepts a name exactly when none of its "
         "slash-separated components is empty, '.' or '..'; hasRef answers exactly whether the resulting view (names the transaction adds, plus names the table shows and the "
         "transaction does not delete) has the name; hasRefWithPrefix answers exactly whether the resulting view has a name below the prefix - names deleted by the "
         "transaction are skipped, they neither end the search nor count; validateAddition accepts only if every added name is valid, has nothing below it in the resulting "
         "view and has no ancestor directory that is a ref of the resulting view (loop invariants over the ancestor chain); validateRefRecordAddition splits the records of "
         "the new table into sorted additions and deletions as validateAddition requires. So a transaction that deletes a and creates a/b together is judged against the "
         "view without a."),
   note=(TRUST + " Assumed, not proved (it is what C02/C03 state for ref iteration): an iterator handed out by Table.SeekRef yields the table's live ref names at or after "
         "the key, each once, ascending, and reports exhaustion only when none is left (ghost stream model at the interface contracts of Table.SeekRef / iterator.Next); two "
         "facts about byte-wise string order (a name is >= each of its prefixes; names with a common prefix form an interval); strings.Split, path.Split, strings.TrimSuffix, "
         "sort.SearchStrings compute the abstract functions they are specified by. Not decided: completeness of validateAddition (that a legal transaction is never refused) "
         "beyond the exactness of the two lookups; that checkAddition (trusted) reads the new table correctly; and the induction over histories that the live set stays conflict-free. Known finding (recorded, "
         "not repaired): the tables of one multi-table Addition are not checked against each other (F15) - the obligation 'names are checked against the whole transaction' at "
         "Addition.Add fails and is printed as KNOWN-FINDING."),
   design="4/C12", technique="contract-based deductive verification: abstract live-set specification, ghost stream model for the iterator, loop invariants")

NOT_APPLICABLE = {
 "C15": "relational property of two programs in two languages; no deductive verifier for C is installed and rtv reads Go SSA only (DESIGN.md section 4/C15)",
}

def main():
    props = [json.loads(l) for l in open(os.path.join(HERE, "properties.jsonl"))]
    checks = []
    na = []
    for p in props:
        pid = p["id"]
        if pid in CLAIMED:
            c = CLAIMED[pid]
            checks.append({
                "property_id": pid,
                "quick_cmd": f"bin/rtv check --property {pid} --tier quick",
                "thorough_cmd": f"bin/rtv check --property {pid} --tier thorough",
                "evidence_file": f"/verif/evidence/{pid}.json",
                "replay_cmd_template": "bin/rtv replay {path}",
                "engine": "rtv",
                "level_claimed": {"category": "proof", "text": c["text"], "design_ref": c["design"]},
                "level_note": c["note"],
                "technique": c["technique"],
            })
        else:
            na.append({"property_id": pid, "reason": NOT_APPLICABLE.get(pid, "no check registered yet: the contracts for this property are not complete in this revision (see DESIGN.md section 9, status)")})
    hooks_commits = subprocess.run(["git", "-C", "/repo", "log", "--format=%h %s", "--grep=^verif:"], capture_output=True, text=True).stdout.strip().splitlines()
    m = {
        "version": 1,
        "setup_cmd": "cd /verif/rtv && GOFLAGS=-mod=vendor GOPROXY=off GOSUMDB=off GOTOOLCHAIN=local go build -o /verif/bin/rtv .",
        "hooks": {
            "guard": "verif",
            "enable": "go build -tags verif (rtv loads /repo with BuildFlags=-tags=verif; the tagged files are verif_contracts.go (comment-only contracts) and verif_lemmas.go (lemma harnesses))",
            "baseline_off_cmd": "cd /repo && GOFLAGS=-mod=mod GOPROXY=off GOSUMDB=off go test -vet=off -count=1 ./...",
            "source_commits": [l.split()[0] for l in hooks_commits],
            "add_only": True,
        },
        "engines": [{"name": "rtv", "path": "/verif/rtv", "serves_properties": sorted(CLAIMED.keys()),
                     "kind_free_text": "verification-condition generator for Go written for this task: go/packages + go/ssa -> passive (DAG) encoding -> SMT-LIB2; contracts in /repo/verif_contracts.go; portfolio z3-new/z3/cvc5; replay of models with go test -overlay"}],
        "checks": checks,
        "not_applicable": na,
        "notes": "Every check rebuilds its verification conditions from /repo's working tree on every run. known_findings.json lists repaired defects (fixed:) and recorded findings.",
    }
    json.dump(m, open(os.path.join(HERE, "MANIFEST.json"), "w"), indent=1)
    print("claimed:", sorted(CLAIMED.keys()))

if __name__ == "__main__":
    main()
