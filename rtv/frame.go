package main

// Frame (modifies) obligations and frame assumptions.

import (
	"fmt"
	"go/ast"
	"go/types"
	"os"
	"strings"

	"golang.org/x/tools/go/ssa"
)

func identName(dr *ssa.DebugRef) string {
	if id, ok := dr.Expr.(*ast.Ident); ok {
		return id.Name
	}
	return ""
}

// topFrame returns the outermost frame (the function under verification).
func (f *Frame) topFrame() *Frame {
	t := f
	for t.parent != nil {
		t = t.parent
	}
	return t
}

// frameTargets: the modifies targets of the function under verification, evaluated in its entry state.
func (f *Frame) frameTargets() map[string][]modTarget {
	top := f.topFrame()
	ct := top.contract
	out := map[string][]modTarget{}
	if ct == nil || !(ct.Frame || ct.HasMod) {
		return nil
	}
	env := &specEnv{f: top, st: top.entry, old: top.entry}
	for _, m := range ct.Modifies {
		for _, mt := range top.modTargets(m.Expr, env) {
			out[mt.heap] = append(out[mt.heap], mt)
		}
	}
	return out
}

// frameOn: every function whose contract states a frame (modifies / pure) has each of its stores, and each callee's
// frame, checked against it; callers rely on it.
func (f *Frame) frameOn() bool {
	top := f.topFrame()
	return top.contract != nil && (top.contract.Frame || top.contract.HasMod) && !top.contract.Trusted && f.e.primary()
}

func (f *Frame) frameProps() []string {
	top := f.topFrame()
	if len(top.contract.FrameP) > 0 {
		return top.contract.FrameP
	}
	return top.contract.Props
}

// allowedWrite: condition under which a write to heap h at ref (element index idx, "" for whole) is permitted.
func (f *Frame) allowedWrite(h, ref, idxLo, idxHi string) string {
	top := f.topFrame()
	e := f.e
	var alts []string
	alts = append(alts, e.isFresh(ref, top.alloc0))
	if idxLo != "" {
		alts = append(alts, fmt.Sprintf("(>= %s %s)", idxLo, idxHi)) // empty region
	}
	for _, t := range f.frameTargets()[h] {
		if t.all {
			return "true"
		}
		c := eq(ref, t.ref)
		if t.lo != "" && idxLo != "" {
			c = and(c, fmt.Sprintf("(<= %s %s)", t.lo, idxLo), fmt.Sprintf("(<= %s %s)", idxHi, t.hi))
		}
		alts = append(alts, c)
	}
	return or(alts...)
}

func (f *Frame) frameCheckStore(x *ssa.Store, av Val, pt types.Type, guard string, st *State) {
	if !f.frameOn() {
		return
	}
	e := f.e
	name := fmt.Sprintf("%s:frame:%s", strings.Join(f.stack, ">"), describe(x))
	if _, ok := isStruct(pt); ok && av.Loc == nil {
		var cs []string
		for _, t := range f.structTargets(av.T, pt) {
			cs = append(cs, f.allowedWrite(t.heap, t.ref, "", ""))
		}
		e.oblige("frame", name, f.frameProps(), guard, and(cs...), f.pos(x.Pos()), "")
		return
	}
	l := e.locOfPtr(av, pt)
	switch l.Kind {
	case LGlobal:
		e.oblige("frame", name, f.frameProps(), guard, f.allowedGlobal(l.Heap), f.pos(x.Pos()), "")
	case LElem:
		e.oblige("frame", name, f.frameProps(), guard, f.allowedWrite(l.Heap, l.Ref, l.Idx, fmt.Sprintf("(+ %s 1)", l.Idx)), f.pos(x.Pos()), "")
	default:
		e.oblige("frame", name, f.frameProps(), guard, f.allowedWrite(l.Heap, l.Ref, "", ""), f.pos(x.Pos()), "")
	}
}

func (f *Frame) allowedGlobal(h string) string {
	for hh := range f.frameTargets() {
		if hh == h {
			return "true"
		}
	}
	return "false"
}

func (f *Frame) frameCheckRegion(in ssa.Instruction, h, ref, lo, hi, guard string, st *State) {
	f.frameCheckRegionCond(in, h, ref, lo, hi, and(guard, fmt.Sprintf("(< %s %s)", lo, hi)), st)
}

func (f *Frame) frameCheckRegionCond(in ssa.Instruction, h, ref, lo, hi, guard string, st *State) {
	if !f.frameOn() {
		return
	}
	name := fmt.Sprintf("%s:frame:%s", strings.Join(f.stack, ">"), describe(in))
	f.e.oblige("frame", name, f.frameProps(), guard, f.allowedWrite(h, ref, lo, hi), f.pos(in.Pos()), "")
}

// frameCheckCall: everything the callee's contract lets it modify must be permitted by our own frame.
func (f *Frame) frameCheckCall(in ssa.Instruction, ct *Contract, callee *ssa.Function, env *specEnv, guard string, st *State) {
	if !f.frameOn() {
		return
	}
	e := f.e
	name := fmt.Sprintf("%s:frame:call:%s", strings.Join(f.stack, ">"), ct.Name)
	if !ct.HasMod {
		// the callee's frame is unspecified: only acceptable if it statically writes nothing
		if callee != nil && callee.Blocks != nil {
			w := e.P.staticWrites(e, callee)
			if len(w) > 0 {
				e.oblige("frame", name+":unspecified", f.frameProps(), guard, "false", f.pos(in.Pos()), "callee has no modifies clause and writes: "+strings.Join(sortedKeys(w), ","))
			}
		}
		return
	}
	for _, m := range ct.Modifies {
		var cs []string
		g := guard
		if len(m.Exprs) > 0 {
			g = and(guard, f.specBool(m.Exprs[0], env))
		}
		for _, t := range f.modTargets(m.Expr, env) {
			if strings.HasPrefix(t.heap, "ghost_") || strings.HasPrefix(t.heap, "G_") {
				cs = append(cs, f.allowedGlobal(t.heap))
				continue
			}
			if t.all {
				ok := "false"
				for _, u := range f.frameTargets()[t.heap] {
					if u.all {
						ok = "true"
					}
				}
				cs = append(cs, ok)
				continue
			}
			aw := f.allowedWrite(t.heap, t.ref, t.lo, t.hi)
			if t.cond != "" {
				aw = implies(t.cond, aw)
			}
			cs = append(cs, aw)
		}
		e.oblige("frame", name+":"+m.Text, f.frameProps(), g, and(cs...), f.pos(in.Pos()), "")
	}
}

// frameAssume: at a loop head, pre-existing locations outside the function's frame are unchanged
// (sound because every store in a frame-checked function is an obligation).
func (f *Frame) frameAssume(h, sortS, before, after, allocBefore string) {
	if os.Getenv("RTV_NOLOOPFRAME") != "" || !f.curLoopFrame {
		return
	}
	if !f.frameOn() || !strings.HasPrefix(sortS, "(Array Int") {
		return
	}
	if strings.HasPrefix(h, "ghost_") || strings.HasPrefix(h, "G_") || strings.HasPrefix(h, "M_") {
		return
	}
	top := f.topFrame()
	e := f.e
	ts := f.frameTargets()[h]
	var excl []string
	for _, t := range ts {
		excl = append(excl, fmt.Sprintf("(not (= r %s))", t.ref))
	}
	e.assert(fmt.Sprintf("(forall ((r Int)) (! (=> %s (= (select %s r) (select %s r))) :pattern ((select %s r))))",
		and(append([]string{fmt.Sprintf("(<= (base r) %s)", top.alloc0)}, excl...)...), after, before, after))
	for _, t := range ts {
		if t.lo == "" {
			continue
		}
		var outside []string
		for _, u := range ts {
			if u.ref == t.ref && u.lo != "" {
				outside = append(outside, fmt.Sprintf("(or (< k %s) (>= k %s))", u.lo, u.hi))
			} else if u.ref == t.ref {
				outside = append(outside, "false")
			}
		}
		e.assert(fmt.Sprintf("(forall ((k Int)) (! (=> %s (= (select (select %s %s) k) (select (select %s %s) k))) :pattern ((select (select %s %s) k))))",
			and(outside...), after, t.ref, before, t.ref, after, t.ref))
	}
}
