package main

import (
	"path/filepath"
	"os/exec"
	"encoding/json"
	"flag"
	"fmt"
	"os"
	"regexp"
	"runtime"
	"sort"
	"strings"
)

func usage() {
	fmt.Fprintln(os.Stderr, `usage:
  rtv func   [-repo DIR] [-t SEC] [-keep DIR] NAME...   verify the named functions, print every obligation
  rtv check  [-repo DIR] --property Cxx --tier quick|thorough
  rtv list   [-repo DIR]                               list contracts and their properties`)
	os.Exit(2)
}

func main() {
	if len(os.Args) < 2 {
		usage()
	}
	switch os.Args[1] {
	case "func":
		cmdFunc(os.Args[2:])
	case "check":
		cmdCheck(os.Args[2:])
	case "list":
		cmdList(os.Args[2:])
	case "selftest":
		cmdSelftest(os.Args[2:])
	case "replay":
		cmdReplay(os.Args[2:])
	default:
		usage()
	}
}

func cmdFunc(args []string) {
	fs := flag.NewFlagSet("func", flag.ExitOnError)
	repo := fs.String("repo", "/repo", "repository directory")
	timeout := fs.Int("t", 10, "solver timeout (s)")
	keep := fs.String("keep", "", "directory to keep SMT files in")
	verbose := fs.Bool("v", false, "print notes and models")
	only := fs.String("only", "", "solve only obligations whose name contains this substring")
	fs.Parse(args)
	p, err := loadProgram(*repo)
	if err != nil {
		fmt.Fprintln(os.Stderr, "load:", err)
		os.Exit(2)
	}
	dir := *keep
	if dir == "" {
		dir, _ = os.MkdirTemp("", "rtv-smt-")
		defer os.RemoveAll(dir)
	} else {
		os.MkdirAll(dir, 0755)
	}
	names := fs.Args()
	if len(names) == 1 && names[0] == "all" {
		names = append([]string{}, p.CS.Order...)
	}
	var frs []*FuncResult
	for _, n := range names {
		ct := p.CS.Funcs[n]
		if ct != nil && (ct.Kind == "extern" || ct.Kind == "iface" || ct.Kind == "callback" || (ct.Trusted && !ct.CheckCalls) || ct.Inline) {
			continue
		}
		frs = append(frs, p.verifyFuncViews(n)...)
	}
	var flt func(*Obl) bool
	if *only != "" {
		flt = func(o *Obl) bool { return strings.Contains(o.Name, *only) }
	}
	dischargeAll(frs, dir, *timeout, runtime.NumCPU(), flt)
	bad := 0
	for _, fr := range frs {
		fmt.Printf("== %s: %d obligations\n", fr.Name, len(fr.Obls))
		for _, e := range fr.Errs {
			fmt.Printf("   ERROR %s\n", e)
			bad++
		}
		if *verbose {
			for _, n := range fr.Notes {
				fmt.Printf("   note: %s\n", n)
			}
		}
		for _, o := range fr.Obls {
			if flt != nil && !flt(o) {
				continue
			}
			status := "ok"
			if o.Cover {
				if o.Result != "sat" {
					status = "VACUOUS?"
					if o.Result == "unsat" {
						bad++
					}
				}
			} else if o.Result != "unsat" {
				status = "FAIL"
				bad++
			}
			fmt.Printf("   %-8s %-7s %-6s %5.2fs  %s  [%s]\n", status, o.Result, o.Backend, o.Secs, o.Name, strings.Join(o.Props, ","))
			if status == "FAIL" && o.Model != "" {
				fmt.Println("        path: " + modelPath(o.Model))
			}
			if status == "FAIL" && *verbose && o.Model != "" {
				fmt.Println(indent(trimModel(o.Model), "        "))
			}
		}
	}
	if bad > 0 {
		if *keep == "" {
			os.RemoveAll(dir)
		}
		os.Exit(1)
	}
}

func indent(s, pre string) string {
	return pre + strings.ReplaceAll(strings.TrimRight(s, "\n"), "\n", "\n"+pre)
}

func trimModel(m string) string {
	lines := strings.Split(m, "\n")
	if len(lines) > 80 {
		lines = lines[:80]
	}
	return strings.Join(lines, "\n")
}

func cmdList(args []string) {
	fs := flag.NewFlagSet("list", flag.ExitOnError)
	repo := fs.String("repo", "/repo", "repository directory")
	fs.Parse(args)
	p, err := loadProgram(*repo)
	if err != nil {
		fmt.Fprintln(os.Stderr, "load:", err)
		os.Exit(2)
	}
	var names []string
	for n := range p.CS.Funcs {
		names = append(names, n)
	}
	sort.Strings(names)
	for _, n := range names {
		c := p.CS.Funcs[n]
		fmt.Printf("%-8s %-40s props=%v req=%d ens=%d loops=%d nopanic=%v\n", c.Kind, n, c.Props, len(c.Requires), len(c.Ensures), len(c.Loops), c.NoPanic)
	}
}

// cmdSelftest: must-fail corpus. Every entry of selftest/corpus.json is a change to /repo that breaks a property (reverts
// of the repaired defects, confirmed seeded changes, hand-made canaries); it is applied to a scratch copy of the
// working tree and the listed property checks must report a violation there. Exit 1 if any entry goes unnoticed.
func cmdSelftest(args []string) {
	fs := flag.NewFlagSet("selftest", flag.ExitOnError)
	repo := fs.String("repo", "/repo", "repository directory")
	only := fs.String("only", "", "run only entries whose name contains this substring")
	onlyProp := fs.String("property", "", "run only entries that list this property, and check only this property")
	fs.Parse(args)
	vdir := verifDir()
	b, err := os.ReadFile(filepath.Join(vdir, "selftest", "corpus.json"))
	if err != nil {
		fmt.Fprintln(os.Stderr, err)
		os.Exit(2)
	}
	var corpus struct {
		Entries []struct {
			Name       string   `json:"name"`
			Patch      string   `json:"patch"`
			Properties []string `json:"properties"`
			Expect     string   `json:"expect"`
		} `json:"entries"`
	}
	if err := json.Unmarshal(b, &corpus); err != nil {
		fmt.Fprintln(os.Stderr, err)
		os.Exit(2)
	}
	self, _ := os.Executable()
	missed := 0
	for _, en := range corpus.Entries {
		if *only != "" && !strings.Contains(en.Name, *only) {
			continue
		}
		if *onlyProp != "" {
			has := false
			for _, pr := range en.Properties {
				if pr == *onlyProp {
					has = true
				}
			}
			if !has {
				continue
			}
			en.Properties = []string{*onlyProp}
		}
		scratch, err := os.MkdirTemp("", "rtv-selftest-")
		if err != nil {
			fmt.Fprintln(os.Stderr, err)
			os.Exit(2)
		}
		cp := exec.Command("rsync", "-a", "--exclude", ".git", *repo+"/", scratch+"/repo/")
		if out, err := cp.CombinedOutput(); err != nil {
			fmt.Fprintf(os.Stderr, "copy: %v %s\n", err, out)
			os.Exit(2)
		}
		ap := exec.Command("git", "apply", "--unsafe-paths", "--directory="+scratch+"/repo", filepath.Join(vdir, en.Patch))
		ap.Dir = scratch
		if out, err := ap.CombinedOutput(); err != nil {
			fmt.Printf("selftest %-28s SKIP (patch does not apply to the current tree: %s)\n", en.Name, strings.TrimSpace(string(out)))
			os.RemoveAll(scratch)
			continue
		}
		hit := false
		var seen []string
		for _, pr := range en.Properties {
			c := exec.Command(self, "check", "--repo", scratch+"/repo", "--property", pr, "--tier", "quick")
			c.Env = append(os.Environ(), "RTV_OUT_DIR="+scratch+"/out")
			out, _ := c.CombinedOutput()
			for _, ln := range strings.Split(string(out), "\n") {
				if strings.HasPrefix(ln, "VIOLATION") && (en.Expect == "" || strings.Contains(ln, en.Expect)) {
					hit = true
					seen = append(seen, filepath.Base(strings.Fields(strings.SplitN(ln, "replay=", 2)[1])[0]))
				}
			}
			if hit {
				break
			}
		}
		os.RemoveAll(scratch)
		if hit {
			fmt.Printf("selftest %-28s caught  %s\n", en.Name, seen[0])
		} else {
			missed++
			fmt.Printf("selftest %-28s MISSED  (properties %v)\n", en.Name, en.Properties)
		}
	}
	if missed > 0 {
		os.Exit(1)
	}
}

// cmdReplay: shows a replay file and re-derives the named obligation from the current tree: exit 1 if it still fails.
func cmdReplay(args []string) {
	fs := flag.NewFlagSet("replay", flag.ExitOnError)
	repo := fs.String("repo", "/repo", "repository directory")
	fs.Parse(args)
	if fs.NArg() != 1 {
		fmt.Fprintln(os.Stderr, "usage: rtv replay [-repo DIR] FILE")
		os.Exit(2)
	}
	b, err := os.ReadFile(fs.Arg(0))
	if err != nil {
		fmt.Fprintln(os.Stderr, err)
		os.Exit(2)
	}
	fmt.Print(string(b))
	var obl, fn string
	for _, ln := range strings.Split(string(b), "\n") {
		if strings.HasPrefix(ln, "failed obligation: ") {
			obl = strings.TrimPrefix(ln, "failed obligation: ")
		}
		if strings.HasPrefix(ln, "function: ") {
			fn = strings.TrimPrefix(ln, "function: ")
		}
	}
	if obl == "" || fn == "" {
		fmt.Println("\n(no obligation recorded in this file: nothing to re-derive)")
		os.Exit(1)
	}
	self, _ := os.Executable()
	fmt.Printf("\n--- re-deriving %s from %s ---\n", obl, *repo)
	c := exec.Command(self, "func", "-repo", *repo, "-t", "60", "-only", lockName(obl), fn)
	out, _ := c.CombinedOutput()
	fmt.Print(string(out))
	if strings.Contains(string(out), "FAIL") || strings.Contains(string(out), "ERROR") {
		os.Exit(1)
	}
}

var rePathVar = regexp.MustCompile(`\(define-fun (f\d+)_r(\d+)(?:!\d+)? \(\) Bool\s+true\)`)

// modelPath lists the basic blocks reached in a model (per frame).
func modelPath(model string) string {
	m := rePathVar.FindAllStringSubmatch(model, -1)
	by := map[string][]int{}
	for _, x := range m {
		var n int
		fmt.Sscan(x[2], &n)
		by[x[1]] = append(by[x[1]], n)
	}
	var ks []string
	for k := range by {
		ks = append(ks, k)
	}
	sort.Strings(ks)
	var out []string
	for _, k := range ks {
		sort.Ints(by[k])
		out = append(out, fmt.Sprintf("%s:%v", k, by[k]))
	}
	return strings.Join(out, " ")
}
