package main

// Tokenizer and Pratt parser for the contract expression language.

import (
	"fmt"
	"strings"
	"unicode"
)

type SExpr interface{ sexpr() }

type (
	SIdent struct{ Name string }
	SInt   struct{ Val string } // decimal
	SStr   struct{ Val string }
	SBool  struct{ Val bool }
	SNil   struct{}
	SUn    struct {
		Op string
		X  SExpr
	}
	SBin struct {
		Op   string
		L, R SExpr
	}
	SQuant struct {
		Forall bool
		Vars   []SVar
		Body   SExpr
	}
	SCall struct {
		Fn   string
		Args []SExpr
	}
	SSel struct {
		X   SExpr
		Sel string
	}
	SIndex struct{ X, I SExpr }
	SSlice struct {
		X      SExpr
		Lo, Hi SExpr // may be nil
	}
	SType struct{ Text string } // a type used as an argument: *RefRecord, []byte
	SCond struct{ C, A, B SExpr }
)

type SVar struct {
	Name string
	Type string
}

func (SIdent) sexpr() {}
func (SInt) sexpr()   {}
func (SStr) sexpr()   {}
func (SBool) sexpr()  {}
func (SNil) sexpr()   {}
func (SUn) sexpr()    {}
func (SBin) sexpr()   {}
func (SQuant) sexpr() {}
func (SCall) sexpr()  {}
func (SSel) sexpr()   {}
func (SIndex) sexpr() {}
func (SSlice) sexpr() {}
func (SType) sexpr()  {}
func (SCond) sexpr()  {}

type tok struct {
	kind string // id, int, str, op, eof
	text string
}

func lexSpec(s string) ([]tok, error) {
	var out []tok
	i := 0
	ops := []string{"<==>", "==>", "<<", ">>", "&&", "||", "==", "!=", "<=", ">=", "::", "&^",
		"+", "-", "*", "/", "%", "&", "|", "^", "<", ">", "!", "(", ")", "[", "]", ",", ".", ":", "?"}
	for i < len(s) {
		c := s[i]
		switch {
		case c == ' ' || c == '\t' || c == '\n':
			i++
		case unicode.IsLetter(rune(c)) || c == '_':
			j := i
			for j < len(s) && (unicode.IsLetter(rune(s[j])) || unicode.IsDigit(rune(s[j])) || s[j] == '_') {
				j++
			}
			out = append(out, tok{"id", s[i:j]})
			i = j
		case unicode.IsDigit(rune(c)):
			j := i
			if strings.HasPrefix(s[i:], "0x") {
				j += 2
				for j < len(s) && strings.ContainsRune("0123456789abcdefABCDEF", rune(s[j])) {
					j++
				}
			} else {
				for j < len(s) && unicode.IsDigit(rune(s[j])) {
					j++
				}
			}
			out = append(out, tok{"int", s[i:j]})
			i = j
		case c == '"':
			j := i + 1
			for j < len(s) && s[j] != '"' {
				if s[j] == '\\' {
					j++
				}
				j++
			}
			if j >= len(s) {
				return nil, fmt.Errorf("unterminated string")
			}
			out = append(out, tok{"str", s[i+1 : j]})
			i = j + 1
		case c == '\'':
			// char literal -> int
			if i+2 < len(s) && s[i+2] == '\'' {
				out = append(out, tok{"int", fmt.Sprint(int(s[i+1]))})
				i += 3
			} else {
				return nil, fmt.Errorf("bad char literal at %d", i)
			}
		default:
			matched := false
			for _, op := range ops {
				if strings.HasPrefix(s[i:], op) {
					out = append(out, tok{"op", op})
					i += len(op)
					matched = true
					break
				}
			}
			if !matched {
				return nil, fmt.Errorf("unexpected character %q at %d in %q", c, i, s)
			}
		}
	}
	out = append(out, tok{"eof", ""})
	return out, nil
}

type sparser struct {
	toks []tok
	pos  int
	src  string
}

func parseSpec(s string) (e SExpr, err error) {
	toks, err := lexSpec(s)
	if err != nil {
		return nil, err
	}
	p := &sparser{toks: toks, src: s}
	defer func() {
		if r := recover(); r != nil {
			if pe, ok := r.(parseErr); ok {
				err = fmt.Errorf("%s in %q", string(pe), s)
				return
			}
			panic(r)
		}
	}()
	e = p.expr(0)
	if p.peek().kind != "eof" {
		p.fail("trailing tokens at %q", p.peek().text)
	}
	return e, nil
}

type parseErr string

func (p *sparser) fail(f string, a ...interface{}) { panic(parseErr(fmt.Sprintf(f, a...))) }
func (p *sparser) peek() tok                       { return p.toks[p.pos] }
func (p *sparser) next() tok                       { t := p.toks[p.pos]; p.pos++; return t }
func (p *sparser) isOp(s string) bool              { t := p.peek(); return t.kind == "op" && t.text == s }
func (p *sparser) expectOp(s string) {
	if !p.isOp(s) {
		p.fail("expected %q, got %q", s, p.peek().text)
	}
	p.pos++
}

var binPrec = map[string]int{
	"<==>": 1, "==>": 2, "||": 3, "&&": 4,
	"==": 5, "!=": 5, "<": 5, "<=": 5, ">": 5, ">=": 5,
	"+": 6, "-": 6, "|": 6, "^": 6,
	"*": 7, "/": 7, "%": 7, "<<": 7, ">>": 7, "&": 7, "&^": 7,
}

func (p *sparser) expr(minPrec int) SExpr {
	lhs := p.unary()
	for {
		t := p.peek()
		if t.kind != "op" {
			break
		}
		if t.text == "?" && minPrec <= 0 {
			p.next()
			a := p.expr(0)
			p.expectOp(":")
			b := p.expr(0)
			lhs = SCond{lhs, a, b}
			continue
		}
		prec, ok := binPrec[t.text]
		if !ok || prec < minPrec {
			break
		}
		p.next()
		var rhs SExpr
		if t.text == "==>" || t.text == "<==>" {
			rhs = p.expr(prec) // right assoc
		} else {
			rhs = p.expr(prec + 1)
		}
		lhs = SBin{t.text, lhs, rhs}
	}
	return lhs
}

func (p *sparser) unary() SExpr {
	t := p.peek()
	if t.kind == "op" && (t.text == "!" || t.text == "-") {
		p.next()
		return SUn{t.text, p.unary()}
	}
	if t.kind == "id" && (t.text == "forall" || t.text == "exists") {
		p.next()
		var vars []SVar
		for {
			n := p.next()
			if n.kind != "id" {
				p.fail("expected binder name")
			}
			ty := p.typeText()
			vars = append(vars, SVar{n.text, ty})
			if p.isOp(",") {
				p.next()
				continue
			}
			break
		}
		p.expectOp("::")
		body := p.expr(0)
		return SQuant{t.text == "forall", vars, body}
	}
	return p.postfix(p.primary())
}

func (p *sparser) typeText() string {
	var b strings.Builder
	for {
		if p.isOp("*") {
			p.next()
			b.WriteString("*")
			continue
		}
		if p.isOp("[") {
			p.next()
			if p.peek().kind == "int" {
				b.WriteString("[" + p.next().text + "]")
				p.expectOp("]")
			} else {
				p.expectOp("]")
				b.WriteString("[]")
			}
			continue
		}
		break
	}
	n := p.next()
	if n.kind != "id" {
		p.fail("expected type name, got %q", n.text)
	}
	b.WriteString(n.text)
	if p.isOp(".") {
		p.next()
		m := p.next()
		b.WriteString("." + m.text)
	}
	return b.String()
}

func (p *sparser) primary() SExpr {
	t := p.next()
	switch t.kind {
	case "int":
		var v string
		if strings.HasPrefix(t.text, "0x") {
			var n uint64
			fmt.Sscanf(t.text[2:], "%x", &n)
			v = fmt.Sprint(n)
		} else {
			v = t.text
		}
		return SInt{v}
	case "str":
		return SStr{t.text}
	case "id":
		switch t.text {
		case "true":
			return SBool{true}
		case "false":
			return SBool{false}
		case "nil":
			return SNil{}
		}
		return SIdent{t.text}
	case "op":
		switch t.text {
		case "(":
			e := p.expr(0)
			p.expectOp(")")
			return e
		case "*", "[":
			// a type argument
			p.pos--
			return SType{p.typeText()}
		}
	}
	p.fail("unexpected token %q", t.text)
	return nil
}

func (p *sparser) postfix(e SExpr) SExpr {
	for {
		switch {
		case p.isOp("."):
			p.next()
			n := p.next()
			if n.kind != "id" {
				p.fail("expected selector")
			}
			e = SSel{e, n.text}
		case p.isOp("("):
			p.next()
			var args []SExpr
			for !p.isOp(")") {
				args = append(args, p.expr(0))
				if p.isOp(",") {
					p.next()
				}
			}
			p.expectOp(")")
			name := ""
			switch f := e.(type) {
			case SIdent:
				name = f.Name
			case SSel:
				if id, ok := f.X.(SIdent); ok {
					name = id.Name + "." + f.Sel
				}
			}
			if name == "" {
				p.fail("call of non-identifier")
			}
			e = SCall{name, args}
		case p.isOp("["):
			p.next()
			var lo, hi SExpr
			if p.isOp(":") {
				p.next()
				if !p.isOp("]") {
					hi = p.expr(0)
				}
				p.expectOp("]")
				e = SSlice{e, nil, hi}
				continue
			}
			lo = p.expr(0)
			if p.isOp(":") {
				p.next()
				if !p.isOp("]") {
					hi = p.expr(0)
				}
				p.expectOp("]")
				e = SSlice{e, lo, hi}
				continue
			}
			p.expectOp("]")
			e = SIndex{e, lo}
		default:
			return e
		}
	}
}
