package main

// Replay of solver models against the real code: an in-package test injected with `go test -overlay`.

import (
	"context"
	"encoding/json"
	"fmt"
	"go/types"
	"os"
	"os/exec"
	"path/filepath"
	"regexp"
	"strconv"
	"strings"
	"time"
)

const replayMaxLen = 4096

var reValue = regexp.MustCompile(`\(\s*(\([^()]*(?:\([^()]*\)[^()]*)*\)|[^\s()]+)\s+(\(- \d+\)|-?\d+|true|false)\s*\)`)

// getValues runs script + (get-value terms) on the backend and returns term->value for integer/bool terms.
func getValues(script string, terms []string, backend string, dir string) map[string]string {
	out := map[string]string{}
	if len(terms) == 0 {
		return out
	}
	file := filepath.Join(dir, "replay-q.smt2")
	var b strings.Builder
	b.WriteString(script)
	for _, t := range terms {
		b.WriteString("(get-value (" + t + "))\n")
	}
	os.WriteFile(file, []byte(b.String()), 0644)
	var s Solver
	for _, x := range solvers {
		if x.Name == backend {
			s = x
		}
	}
	if s.Name == "" {
		s = solvers[0]
	}
	o := runSolver(s, 20, file)
	lines := strings.Split(o.raw, "\n")
	// values are printed one get-value per response, in order; parse sequentially
	idx := 0
	for _, ln := range lines[1:] {
		ln = strings.TrimSpace(ln)
		if !strings.HasPrefix(ln, "((") {
			continue
		}
		if idx >= len(terms) {
			break
		}
		// value is the last token(s)
		v := ln[:len(ln)-2]
		// strip leading "((term "
		if strings.HasSuffix(v, ")") && strings.Contains(v, "(- ") {
			i := strings.LastIndex(v, "(- ")
			out[terms[idx]] = "-" + strings.TrimSuffix(strings.TrimSpace(v[i+3:]), ")")
		} else {
			i := strings.LastIndex(v, " ")
			out[terms[idx]] = strings.TrimSpace(v[i+1:])
		}
		idx++
	}
	return out
}

type replayParam struct {
	name string
	typ  types.Type
	term string
}

func supportedReplayType(t types.Type) bool {
	switch u := t.Underlying().(type) {
	case *types.Basic:
		return u.Info()&(types.IsInteger|types.IsBoolean|types.IsString) != 0
	case *types.Slice:
		if b, ok := u.Elem().Underlying().(*types.Basic); ok {
			return b.Info()&types.IsInteger != 0
		}
	}
	return false
}

// tryReplay builds and runs a replay test. Returns a description and whether the real code confirmed the failure.
func tryReplay(p *Program, o *Obl, repo string) (string, bool) {
	fn := p.Funcs[o.Fn]
	if fn == nil {
		return "no replay: function not found", false
	}
	switch o.Kind {
	case "index", "slice", "nil", "typeassert", "divzero", "makeslice", "panic":
	default:
		return "no replay generator for obligation kind " + o.Kind + " (model attached above)", false
	}
	if fn.Signature.Recv() != nil {
		return "no replay: methods with receivers are not replayed automatically (model attached above)", false
	}
	for _, prm := range fn.Params {
		if !supportedReplayType(prm.Type()) {
			return fmt.Sprintf("no replay: parameter %s has unsupported type %s (model attached above)", prm.Name(), prm.Type()), false
		}
	}
	// locate parameter constants in the encoding
	var enc *Enc = o.Enc
	if enc == nil {
		return "no replay: encoding not available", false
	}
	script := enc.script(o)
	backend := o.Backend
	if o.Relaxed != "" {
		script = o.Relaxed
		backend = o.RelaxedBackend
	}
	dir, _ := os.MkdirTemp("", "rtv-replay-")
	defer os.RemoveAll(dir)
	var params []replayParam
	for _, prm := range fn.Params {
		term := ""
		for _, d := range enc.decls {
			// (declare-const f1_p_buf!1 Slice)
			fields := strings.Fields(strings.Trim(d, "()"))
			if len(fields) >= 2 && strings.Contains(fields[1], "_p_"+sanitize(prm.Name())+"!") {
				term = fields[1]
				break
			}
		}
		if term == "" {
			return "no replay: parameter constant not found for " + prm.Name(), false
		}
		params = append(params, replayParam{prm.Name(), prm.Type(), term})
	}
	// prefer a small model: re-solve with length bounds on slice/string parameters
	for _, bound := range []int{8, 64, 1024} {
		extra := ""
		for _, pr := range params {
			switch pr.typ.Underlying().(type) {
			case *types.Slice:
				extra += fmt.Sprintf("(assert (<= (s-len %s) %d))\n", pr.term, bound)
			case *types.Basic:
				if isString(pr.typ) {
					extra += fmt.Sprintf("(assert (<= (slen %s) %d))\n", pr.term, bound)
				}
			}
		}
		if extra == "" {
			break
		}
		cand := strings.Replace(script, "(check-sat)\n", extra+"(check-sat)\n", 1)
		file := filepath.Join(dir, "small.smt2")
		os.WriteFile(file, []byte(cand), 0644)
		var sv Solver
		for _, x := range solvers {
			if x.Name == backend {
				sv = x
			}
		}
		if sv.Name == "" {
			sv = solvers[0]
		}
		if r := runSolver(sv, 10, file); r.result == "sat" {
			script = cand
			break
		}
	}
	// phase 1: scalars and lengths
	var q []string
	for _, pr := range params {
		switch pr.typ.Underlying().(type) {
		case *types.Slice:
			q = append(q, fmt.Sprintf("(s-len %s)", pr.term), fmt.Sprintf("(s-ref %s)", pr.term))
		case *types.Basic:
			if isString(pr.typ) {
				q = append(q, fmt.Sprintf("(slen %s)", pr.term))
			} else {
				q = append(q, pr.term)
			}
		}
	}
	vals := getValues(script, q, backend, dir)
	var q2 []string
	lens := map[string]int{}
	clamped := false
	for _, pr := range params {
		switch u := pr.typ.Underlying().(type) {
		case *types.Slice:
			n, _ := strconv.Atoi(vals[fmt.Sprintf("(s-len %s)", pr.term)])
			if n > replayMaxLen {
				n = replayMaxLen
				clamped = true
			}
			lens[pr.name] = n
			hn, hs := enc.elemHeap(u.Elem())
			h := "H0_" + hn
			_ = hs
			for k := 0; k < n; k++ {
				q2 = append(q2, fmt.Sprintf("(select (select %s (s-ref %s)) (+ (s-off %s) %d))", h, pr.term, pr.term, k))
			}
		case *types.Basic:
			if isString(pr.typ) {
				n, _ := strconv.Atoi(vals[fmt.Sprintf("(slen %s)", pr.term)])
				if n > replayMaxLen {
					n = replayMaxLen
					clamped = true
				}
				lens[pr.name] = n
				for k := 0; k < n; k++ {
					q2 = append(q2, fmt.Sprintf("(sat %s %d)", pr.term, k))
				}
			}
		}
	}
	vals2 := getValues(script, q2, backend, dir)
	// build the test
	var body strings.Builder
	var callArgs []string
	for _, pr := range params {
		tn := types.TypeString(pr.typ, types.RelativeTo(p.TPkg))
		switch u := pr.typ.Underlying().(type) {
		case *types.Slice:
			ref := vals[fmt.Sprintf("(s-ref %s)", pr.term)]
			if ref == "0" {
				fmt.Fprintf(&body, "\tvar %s %s\n", pr.name, tn)
			} else {
				var es []string
				hn, _ := enc.elemHeap(u.Elem())
				for k := 0; k < lens[pr.name]; k++ {
					v := vals2[fmt.Sprintf("(select (select H0_%s (s-ref %s)) (+ (s-off %s) %d))", hn, pr.term, pr.term, k)]
					if v == "" {
						v = "0"
					}
					es = append(es, clampLit(v, u.Elem()))
				}
				fmt.Fprintf(&body, "\t%s := %s{%s}\n", pr.name, tn, strings.Join(es, ", "))
			}
		case *types.Basic:
			if isString(pr.typ) {
				var es []string
				for k := 0; k < lens[pr.name]; k++ {
					v := vals2[fmt.Sprintf("(sat %s %d)", pr.term, k)]
					if v == "" {
						v = "0"
					}
					es = append(es, clampLit(v, types.Typ[types.Uint8]))
				}
				fmt.Fprintf(&body, "\t%s := %s(string([]byte{%s}))\n", pr.name, tn, strings.Join(es, ", "))
			} else if u.Info()&types.IsBoolean != 0 {
				fmt.Fprintf(&body, "\t%s := %s\n", pr.name, vals[pr.term])
			} else {
				fmt.Fprintf(&body, "\tvar %s %s = %s\n", pr.name, tn, clampLit(vals[pr.term], pr.typ))
			}
		}
		callArgs = append(callArgs, pr.name)
	}
	test := fmt.Sprintf(`package reftable

import (
	"fmt"
	"testing"
)

// Generated by rtv from the solver model of obligation
//   %s
func TestVerifReplay(t *testing.T) {
	defer func() {
		if r := recover(); r != nil {
			fmt.Println("REPLAY-PANIC:", r)
		}
	}()
%s	%s(%s)
	fmt.Println("REPLAY-NOPANIC")
}
`, o.Name, body.String(), fn.Name(), strings.Join(callArgs, ", "))
	out, err := runOverlayTest(repo, dir, "verif_replay_test.go", test, "TestVerifReplay")
	txt := "generated test:\n" + test + "\noutput:\n" + out
	if clamped {
		txt += "\n(note: a length in the model exceeded the replay cap and was clamped)\n"
	}
	if err != nil && !strings.Contains(out, "REPLAY-") {
		return txt + "\nreplay did not run: " + err.Error(), false
	}
	if strings.Contains(out, "REPLAY-PANIC") {
		return txt + "\nCONFIRMED: the real function panics on the model's input", true
	}
	return txt + "\nnot confirmed: the real function did not panic on the (possibly clamped) model input", false
}

func clampLit(v string, t types.Type) string {
	if v == "" {
		return "0"
	}
	return v
}

var lastEnc = map[string]*Enc{}

func runOverlayTest(repo, dir, name, content, run string) (string, error) {
	tf := filepath.Join(dir, name)
	os.WriteFile(tf, []byte(content), 0644)
	ov := map[string]map[string]string{"Replace": {filepath.Join(repo, name): tf}}
	ob, _ := json.Marshal(ov)
	ovf := filepath.Join(dir, "overlay.json")
	os.WriteFile(ovf, ob, 0644)
	ctx, cancel := context.WithTimeout(context.Background(), 120*time.Second)
	defer cancel()
	cmd := exec.CommandContext(ctx, "go", "test", "-overlay", ovf, "-vet=off", "-count=1", "-timeout", "60s", "-run", "^"+run+"$", "-v", ".")
	cmd.Dir = repo
	cmd.Env = goEnv()
	b, err := cmd.CombinedOutput()
	return string(b), err
}
