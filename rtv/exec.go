package main

// Symbolic execution of go/ssa function bodies into a passive (DAG) encoding.

import (
	"fmt"
	"go/constant"
	"go/token"
	"go/types"
	"math/big"
	"os"
	"sort"
	"strings"

	"golang.org/x/tools/go/ssa"
)

type deferRec struct {
	block *ssa.BasicBlock
	guard string
	call  *ssa.Defer
	args  []Val
	fnVal Val
	order int
}

type retRec struct {
	block   int
	guard   string
	results []Val
	state   *State
}

type Frame struct {
	e            *Enc
	fn           *ssa.Function
	id           int
	prefix       string
	vals         map[ssa.Value]Val
	reach        map[*ssa.BasicBlock]string
	out          map[*ssa.BasicBlock]*State
	edgeCond     map[[2]int]string
	defers       []*deferRec
	rets         []*retRec
	depth        int
	parent       *Frame
	entry        *State // state at entry (for old())
	alloc0       string
	contract     *Contract
	loops        []*LoopInfo
	top          bool
	noPanic      bool
	npProps      []string
	loopHead     map[*ssa.BasicBlock]*loopCtx
	freeVars     map[*ssa.FreeVar]Val
	curLoopFrame bool
	reachCache   map[[2]int]bool
	stack        []string
	// names of values for spec lookup
	paramVal map[string]Val
}

type loopCtx struct {
	li      *LoopInfo
	spec    *LoopSpec
	phiVals map[*ssa.Phi]Val
	measure string
	state   *State
}

var frameCounter int

func (e *Enc) newFrame(fn *ssa.Function, parent *Frame) *Frame {
	frameCounter++
	f := &Frame{e: e, fn: fn, id: frameCounter, prefix: fmt.Sprintf("f%d", frameCounter),
		vals: map[ssa.Value]Val{}, reach: map[*ssa.BasicBlock]string{}, out: map[*ssa.BasicBlock]*State{},
		edgeCond: map[[2]int]string{}, parent: parent, loopHead: map[*ssa.BasicBlock]*loopCtx{}, freeVars: map[*ssa.FreeVar]Val{},
		paramVal: map[string]Val{}}
	if parent != nil {
		f.depth = parent.depth + 1
		f.noPanic = parent.noPanic
		f.npProps = parent.npProps
		f.stack = append(append([]string{}, parent.stack...), e.P.fnName(fn))
	} else {
		f.stack = []string{e.P.fnName(fn)}
	}
	f.contract = e.P.CS.Funcs[e.P.fnName(fn)]
	if fn.Parent() != nil {
		// closures: contract keyed as parent$N
		f.contract = e.P.CS.Funcs[fn.Name()]
		if f.contract == nil {
			f.contract = e.P.CS.Funcs[e.P.fnName(fn.Parent())+"$"+strings.TrimPrefix(fn.Name(), fn.Parent().Name()+"$")]
		}
	}
	f.loops = findLoops(fn)
	return f
}

func (f *Frame) name(v ssa.Value) string {
	return f.prefix + "_" + sanitize(v.Name())
}

func (f *Frame) pos(p token.Pos) token.Position { return f.e.P.pos(p) }

// ---------- constants ----------

func (f *Frame) constVal(c *ssa.Const) Val {
	e := f.e
	t := c.Type()
	if c.Value == nil {
		return Val{T: e.tt().zero(t), Typ: t}
	}
	switch c.Value.Kind() {
	case constant.Bool:
		if constant.BoolVal(c.Value) {
			return Val{T: "true", Typ: t}
		}
		return Val{T: "false", Typ: t}
	case constant.String:
		return Val{T: e.strLit(constant.StringVal(c.Value)), Typ: t}
	case constant.Int:
		bi, ok := new(big.Int).SetString(c.Value.ExactString(), 10)
		if !ok {
			bi = big.NewInt(0)
		}
		return Val{T: smtInt(bi), Typ: t}
	}
	return Val{T: "0", Typ: t}
}

func (f *Frame) val(v ssa.Value) Val {
	switch x := v.(type) {
	case *ssa.Const:
		return f.constVal(x)
	case *ssa.Global:
		return f.globalPtr(x)
	case *ssa.Function:
		return Val{T: "0", Clo: &Closure{Fn: x}, Typ: x.Type()}
	case *ssa.FreeVar:
		if r, ok := f.freeVars[x]; ok {
			return r
		}
	case *ssa.Builtin:
		return Val{T: "0", Typ: x.Type()}
	}
	if r, ok := f.vals[v]; ok {
		return r
	}
	// unknown (e.g. value defined in a block not yet processed: loop-carried through non-phi?); havoc
	f.e.errorf("%s: value %s (%T) used before definition", f.e.P.fnName(f.fn), v.Name(), v)
	nv := f.freshVal("undef_"+v.Name(), v.Type())
	f.vals[v] = nv
	return nv
}

func (f *Frame) globalPtr(g *ssa.Global) Val {
	e := f.e
	elem := g.Type().(*types.Pointer).Elem()
	hn := "G_" + sanitize(g.Name())
	if g.Pkg != e.P.Pkg {
		hn = "G_" + sanitize(g.Pkg.Pkg.Name()+"."+g.Name())
	}
	return Val{T: "0", Typ: g.Type(), Loc: &Loc{Kind: LGlobal, Heap: hn, HSort: e.tt().sortOf(elem), Typ: elem}}
}

// freshVal: an unconstrained value of Go type t, with typing assumptions relative to the given state
func (f *Frame) freshVal(hint string, t types.Type) Val {
	e := f.e
	if tup, ok := t.(*types.Tuple); ok {
		var vs []Val
		for i := 0; i < tup.Len(); i++ {
			vs = append(vs, f.freshVal(fmt.Sprintf("%s_%d", hint, i), tup.At(i).Type()))
		}
		return Val{Tuple: vs, Typ: t}
	}
	n := e.fresh(f.prefix+"_"+hint, e.tt().sortOf(t))
	if rc := e.tt().rangeConstraint(n, t); rc != "" {
		e.assert(rc)
	}
	return Val{T: n, Typ: t}
}

// ---------- control flow ----------

func (f *Frame) isBackEdge(from, to *ssa.BasicBlock) bool { return to.Dominates(from) }

func (f *Frame) topoOrder() []*ssa.BasicBlock {
	var order []*ssa.BasicBlock
	seen := map[*ssa.BasicBlock]bool{}
	var dfs func(b *ssa.BasicBlock)
	dfs = func(b *ssa.BasicBlock) {
		seen[b] = true
		for _, s := range b.Succs {
			if !seen[s] && !f.isBackEdge(b, s) {
				dfs(s)
			}
		}
		order = append(order, b)
	}
	dfs(f.fn.Blocks[0])
	for i, j := 0, len(order)-1; i < j; i, j = i+1, j-1 {
		order[i], order[j] = order[j], order[i]
	}
	return order
}

// run encodes the function body. Returns merged results and exit state (nil if no normal return).
func (f *Frame) run(entryGuard string, st *State, args []Val) ([]Val, *State, string) {
	e := f.e
	fn := f.fn
	f.entry = st.clone()
	f.alloc0 = st.alloc
	for i, p := range fn.Params {
		if i < len(args) {
			f.vals[p] = args[i]
			f.paramVal[p.Name()] = args[i]
		}
	}
	order := f.topoOrder()
	for _, b := range order {
		f.block(b, entryGuard, st)
	}
	if len(f.rets) == 0 {
		return nil, nil, "false"
	}
	// merge returns
	if len(f.rets) == 1 {
		r := f.rets[0]
		return r.results, r.state, r.guard
	}
	var guards []string
	for _, r := range f.rets {
		guards = append(guards, r.guard)
	}
	anyRet := e.define(f.prefix+"_ret", sBool, or(guards...))
	nres := len(f.rets[0].results)
	results := make([]Val, nres)
	for i := 0; i < nres; i++ {
		results[i] = f.mergeVals(i)
	}
	ms := f.mergeStates(func(k int) (string, *State) { return f.rets[k].guard, f.rets[k].state }, len(f.rets), "ret")
	return results, ms, anyRet
}

func (f *Frame) mergeVals(i int) Val {
	e := f.e
	first := f.rets[0].results[i]
	if first.Tuple != nil || first.Clo != nil {
		return first
	}
	t := first.T
	same := true
	for _, r := range f.rets[1:] {
		if r.results[i].T != t {
			same = false
		}
	}
	if same {
		return first
	}
	sortS := e.tt().sortOf(first.Typ)
	n := e.fresh(f.prefix+"_res", sortS)
	for _, r := range f.rets {
		e.assume(r.guard, eq(n, r.results[i].T))
	}
	return Val{T: n, Typ: first.Typ}
}

func (f *Frame) mergeStates(get func(int) (string, *State), n int, hint string) *State {
	e := f.e
	names := map[string]bool{}
	for k := 0; k < n; k++ {
		_, s := get(k)
		for h := range s.heaps {
			names[h] = true
		}
	}
	res := &State{heaps: map[string]string{}}
	for _, h := range sortedKeys(names) {
		sortS := e.heapSort[h]
		var terms []string
		same := true
		for k := 0; k < n; k++ {
			_, s := get(k)
			t := e.getHeap(s, h, sortS)
			terms = append(terms, t)
			if t != terms[0] {
				same = false
			}
		}
		if same {
			res.heaps[h] = terms[0]
			continue
		}
		m := e.fresh("hj_"+h, sortS)
		for k := 0; k < n; k++ {
			g, _ := get(k)
			e.assume(g, eq(m, terms[k]))
		}
		res.heaps[h] = m
	}
	// alloc
	_, s0 := get(0)
	same := true
	for k := 1; k < n; k++ {
		_, s := get(k)
		if s.alloc != s0.alloc {
			same = false
		}
	}
	if same {
		res.alloc = s0.alloc
	} else {
		m := e.fresh("alloc_j", sInt)
		for k := 0; k < n; k++ {
			g, s := get(k)
			e.assume(g, eq(m, s.alloc))
		}
		res.alloc = m
	}
	return res
}

type inEdge struct {
	from  *ssa.BasicBlock
	taken string
	idx   int // index in b.Preds
}

func (f *Frame) block(b *ssa.BasicBlock, entryGuard string, entryState *State) {
	e := f.e
	if f.parent == nil {
		e.curBlock = b.Index
	}
	var st *State
	var reach string
	var ins []inEdge
	if b.Index == 0 {
		reach = entryGuard
		st = entryState.clone()
	} else {
		for i, p := range b.Preds {
			if f.isBackEdge(p, b) {
				continue
			}
			pr, ok := f.reach[p]
			if !ok {
				continue // unreachable predecessor
			}
			c := f.edgeCond[[2]int{p.Index, b.Index}]
			if tr, ok := p.Instrs[len(p.Instrs)-1].(*ssa.If); ok && p.Succs[0] == p.Succs[1] {
				_ = tr
				c = "true"
			}
			taken := and(pr, c)
			ins = append(ins, inEdge{p, taken, i})
		}
		if len(ins) == 0 {
			return
		}
		if len(ins) == 1 {
			reach = e.define(fmt.Sprintf("%s_r%d", f.prefix, b.Index), sBool, ins[0].taken)
			ins[0].taken = reach
			st = f.out[ins[0].from].clone()
		} else {
			var ts []string
			for i := range ins {
				ins[i].taken = e.define(fmt.Sprintf("%s_e%d_%d", f.prefix, ins[i].from.Index, b.Index), sBool, ins[i].taken)
				ts = append(ts, ins[i].taken)
			}
			reach = e.define(fmt.Sprintf("%s_r%d", f.prefix, b.Index), sBool, or(ts...))
			st = f.mergeStates(func(k int) (string, *State) { return ins[k].taken, f.out[ins[k].from] }, len(ins), fmt.Sprintf("b%d", b.Index))
		}
	}
	f.reach[b] = reach

	// loop header?
	var lc *loopCtx
	for _, li := range f.loops {
		if li.Header == b {
			lc = f.enterLoop(li, b, reach, st, ins)
			break
		}
	}
	// phis
	for _, in := range b.Instrs {
		phi, ok := in.(*ssa.Phi)
		if !ok {
			break
		}
		if lc != nil {
			f.vals[phi] = lc.phiVals[phi]
			continue
		}
		f.vals[phi] = f.phiVal(phi, ins)
	}
	if lc != nil {
		f.assumeLoopInvariants(lc, reach, st)
	}
	for _, in := range b.Instrs {
		if _, ok := in.(*ssa.Phi); ok {
			continue
		}
		f.instr(in, reach, st)
	}
	f.out[b] = st
	// back edges out of this block: check invariants
	for _, s := range b.Succs {
		if f.isBackEdge(b, s) {
			c := f.edgeCond[[2]int{b.Index, s.Index}]
			f.checkBackEdge(b, s, and(reach, c), st)
		}
	}
}

func (f *Frame) phiVal(phi *ssa.Phi, ins []inEdge) Val {
	e := f.e
	t := phi.Type()
	var vals []Val
	for _, ie := range ins {
		vals = append(vals, f.val(phi.Edges[ie.idx]))
	}
	if len(vals) == 1 {
		return vals[0]
	}
	same := true
	for _, v := range vals[1:] {
		if v.T != vals[0].T || v.Loc != vals[0].Loc {
			same = false
		}
	}
	if same {
		return vals[0]
	}
	if vals[0].Tuple != nil {
		return vals[0]
	}
	n := e.fresh(f.name(phi), e.tt().sortOf(t))
	for i, ie := range ins {
		e.assume(ie.taken, eq(n, vals[i].T))
	}
	r := Val{T: n, Typ: t}
	// keep closure identity if all same
	if vals[0].Clo != nil {
		r.Clo = vals[0].Clo
	}
	return r
}

// ---------- loops ----------

func (f *Frame) loopSpec(li *LoopInfo) *LoopSpec {
	if f.contract != nil {
		if ls := f.contract.Loops[li.Ordinal]; ls != nil {
			return ls
		}
	}
	return nil
}

func (f *Frame) loopWrites(li *LoopInfo) map[string]bool {
	e := f.e
	w := map[string]bool{}
	for b := range li.Body {
		for _, in := range b.Instrs {
			switch x := in.(type) {
			case *ssa.Store:
				for _, h := range e.P.ptrHeaps(e, x.Addr, map[ssa.Value]bool{}) {
					w[h] = true
				}
			case *ssa.MapUpdate:
				if mt, ok := x.Map.Type().Underlying().(*types.Map); ok {
					n, vsort, psort := f.mapHeap(mt)
					e.heapSort[n+"_v"] = vsort
					e.heapSort[n+"_p"] = psort
					w[n+"_v"] = true
					w[n+"_p"] = true
					e.heapSort[n+"_n"] = "(Array Int Int)"
					w[n+"_n"] = true
				}
			case ssa.CallInstruction:
				e.P.callWrites(e, x.Common(), w, map[*ssa.Function]bool{})
				if b, ok := x.Common().Value.(*ssa.Builtin); ok && b.Name() == "delete" {
					if mt, ok := x.Common().Args[0].Type().Underlying().(*types.Map); ok {
						n, _, psort := f.mapHeap(mt)
						e.heapSort[n+"_p"] = psort
						w[n+"_p"] = true
						e.heapSort[n+"_n"] = "(Array Int Int)"
						w[n+"_n"] = true
					}
				}
			}
		}
	}
	return w
}

func (f *Frame) enterLoop(li *LoopInfo, b *ssa.BasicBlock, reach string, st *State, ins []inEdge) *loopCtx {
	e := f.e
	spec := f.loopSpec(li)
	lc := &loopCtx{li: li, spec: spec, phiVals: map[*ssa.Phi]Val{}}
	f.loopHead[b] = lc
	fname := e.P.fnName(f.fn)
	if spec == nil {
		e.note(fmt.Sprintf("loop %d of %s has no invariant: state havocked at the loop head", li.Ordinal, fname))
		spec = &LoopSpec{}
		lc.spec = spec
	}
	// entry values of phis
	entryPhi := map[*ssa.Phi]Val{}
	for _, in := range b.Instrs {
		phi, ok := in.(*ssa.Phi)
		if !ok {
			break
		}
		entryPhi[phi] = f.phiVal(phi, ins)
	}
	// check invariants on entry
	for _, inv := range spec.Invariants {
		if !e.inView(inv) {
			continue
		}
		t := f.specBool(inv.Expr, &specEnv{f: f, st: st, old: f.entry, block: b, phiOverride: entryPhi, atLoopHead: true})
		f.e.oblige("loop-entry", fmt.Sprintf("%s:loop%d:entry:%s", fname, li.Ordinal, clauseName(inv)), f.clauseProps(inv), reach, t, f.pos(loopPos(li)), inv.Text)
	}
	// havoc
	allocBefore := st.alloc
	na := e.fresh("alloc_l", sInt)
	e.assert(fmt.Sprintf("(and (>= %s %s) (< %s %s))", na, st.alloc, na, pow2(embBase-1)))
	st.alloc = na
	for _, in := range b.Instrs {
		phi, ok := in.(*ssa.Phi)
		if !ok {
			break
		}
		nv := f.freshVal(phi.Name()+"_"+sanitize(phi.Comment), phi.Type())
		if entryPhi[phi].Clo != nil {
			nv.Clo = entryPhi[phi].Clo
		}
		e.assert(e.wfVal(nv.T, phi.Type(), na))
		lc.phiVals[phi] = nv
	}
	f.curLoopFrame = spec.Frame
	w := f.loopWrites(li)
	if w["*"] {
		e.note(fmt.Sprintf("loop %d of %s calls an unknown function value: all heaps havocked", li.Ordinal, fname))
		for h := range e.heapSort {
			w[h] = true
		}
	}
	for _, h := range sortedKeys(w) {
		if h == "*" {
			continue
		}
		sortS, ok := e.heapSort[h]
		if !ok {
			continue
		}
		before := e.getHeap(st, h, sortS)
		nh := e.freshHeap("hl_", h, sortS, na)
		st.heaps[h] = nh
		f.autoFrame(h, sortS, before, nh, allocBefore)
	}
	lc.state = st.clone()
	return lc
}

// autoFrame: locations that existed before the loop and that the enclosing function may not modify keep their value.
// Only emitted when the function's contract is frame-checked (every store is an obligation).
func (f *Frame) autoFrame(h, sortS, before, after, allocBefore string) {
	// Implemented conservatively in frame.go when contract.Frame is set.
	f.frameAssume(h, sortS, before, after, allocBefore)
}

func (f *Frame) assumeLoopInvariants(lc *loopCtx, reach string, st *State) {
	for _, inv := range lc.spec.Invariants {
		if !f.e.inView(inv) {
			continue
		}
		t := f.specBool(inv.Expr, &specEnv{f: f, st: st, old: f.entry, block: lc.li.Header, atLoopHead: true})
		f.e.assume(reach, t)
	}
	if d := lc.spec.Decreases; d != nil {
		v := f.specTerm(d.Expr, &specEnv{f: f, st: st, old: f.entry, block: lc.li.Header, atLoopHead: true})
		lc.measure = f.e.define(f.prefix+"_measure", sInt, v.T)
	}
	f.useLemmas(reach, st)
}

func (f *Frame) checkBackEdge(from, header *ssa.BasicBlock, taken string, st *State) {
	lc := f.loopHead[header]
	if lc == nil {
		return
	}
	fname := f.e.P.fnName(f.fn)
	// phi values along this edge
	idx := -1
	for i, p := range header.Preds {
		if p == from {
			idx = i
		}
	}
	over := map[*ssa.Phi]Val{}
	for _, in := range header.Instrs {
		phi, ok := in.(*ssa.Phi)
		if !ok {
			break
		}
		over[phi] = f.val(phi.Edges[idx])
	}
	for _, inv := range lc.spec.Invariants {
		if !f.e.inView(inv) {
			continue
		}
		t := f.specBool(inv.Expr, &specEnv{f: f, st: st, old: f.entry, block: header, phiOverride: over, atLoopHead: true})
		f.e.oblige("loop-preserve", fmt.Sprintf("%s:loop%d:preserve:%s", fname, lc.li.Ordinal, clauseName(inv)), f.clauseProps(inv), taken, t, f.pos(loopPos(lc.li)), inv.Text)
	}
	if d := lc.spec.Decreases; d != nil && f.e.primary() {
		v := f.specTerm(d.Expr, &specEnv{f: f, st: st, old: f.entry, block: header, phiOverride: over, atLoopHead: true})
		cond := fmt.Sprintf("(and (>= %s 0) (< %s %s))", lc.measure, v.T, lc.measure)
		f.e.oblige("loop-decreases", fmt.Sprintf("%s:loop%d:decreases", fname, lc.li.Ordinal), f.clauseProps(d), taken, cond, f.pos(loopPos(lc.li)), d.Text)
	}
}

func (f *Frame) clauseProps(c *Clause) []string {
	if len(c.Props) > 0 {
		return c.Props
	}
	if f.contract != nil && len(f.contract.Props) > 0 {
		return f.contract.Props
	}
	// inlined frames (deferred closures, helpers): the obligations belong to the function under verification
	if top := f.topFrame(); top.contract != nil {
		return top.contract.Props
	}
	return nil
}

// ---------- panics ----------

func (f *Frame) rtCheck(kind string, in ssa.Instruction, guard, cond, desc string) {
	e := f.e
	if f.noPanic && e.primary() {
		name := fmt.Sprintf("%s:%s:%s", strings.Join(f.stack, ">"), kind, desc)
		e.oblige(kind, name, f.npProps, guard, cond, f.pos(in.Pos()), "")
	} else {
		e.assume(guard, cond)
	}
}

func (f *Frame) explicitPanic(in ssa.Instruction, guard, desc string) {
	e := f.e
	if f.noPanic && e.primary() {
		name := fmt.Sprintf("%s:panic:%s", strings.Join(f.stack, ">"), desc)
		e.oblige("panic", name, f.npProps, guard, "false", f.pos(in.Pos()), "")
	} else {
		e.assume(guard, "false")
	}
}

var theProgram *Program
var srcCache = map[string][]string{}

// describe names an instruction by the text of its source line (stable under SSA renumbering).
func describe(in ssa.Instruction) string {
	if theProgram != nil && in.Pos().IsValid() {
		pos := theProgram.Fset.Position(in.Pos())
		lines, ok := srcCache[pos.Filename]
		if !ok {
			b, _ := os.ReadFile(pos.Filename)
			lines = strings.Split(string(b), "\n")
			srcCache[pos.Filename] = lines
		}
		if pos.Line-1 < len(lines) && pos.Line > 0 {
			s := strings.Join(strings.Fields(lines[pos.Line-1]), "")
			if len(s) > 60 {
				s = s[:60]
			}
			if s != "" {
				return s
			}
		}
	}
	s := in.String()
	s = strings.Join(strings.Fields(s), "")
	if len(s) > 50 {
		s = s[:50]
	}
	return s
}

func srcText(p *Program, pos token.Pos) string {
	return ""
}

func sortedBlocks(m map[*ssa.BasicBlock]bool) []*ssa.BasicBlock {
	var out []*ssa.BasicBlock
	for b := range m {
		out = append(out, b)
	}
	sort.Slice(out, func(i, j int) bool { return out[i].Index < out[j].Index })
	return out
}

// canReach: whether block from can reach block to in the function's DAG (back edges ignored).
func (f *Frame) canReach(from, to *ssa.BasicBlock) bool {
	if from == to {
		return true
	}
	if f.reachCache == nil {
		f.reachCache = map[[2]int]bool{}
	}
	k := [2]int{from.Index, to.Index}
	if v, ok := f.reachCache[k]; ok {
		return v
	}
	seen := map[*ssa.BasicBlock]bool{to: true}
	stack := []*ssa.BasicBlock{to}
	found := false
	for len(stack) > 0 && !found {
		x := stack[len(stack)-1]
		stack = stack[:len(stack)-1]
		for _, p := range x.Preds {
			if x.Dominates(p) {
				continue
			}
			if p == from {
				found = true
				break
			}
			if !seen[p] {
				seen[p] = true
				stack = append(stack, p)
			}
		}
	}
	f.reachCache[k] = found
	return found
}
