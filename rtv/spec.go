package main

// Translation of contract expressions to SMT terms.

import (
	"fmt"
	"go/constant"
	"go/types"
	"math/big"
	"os"
	"strings"

	"golang.org/x/tools/go/ssa"
)

type seqView struct {
	arr, off, ln string
	elem         types.Type
}

type specEnv struct {
	f           *Frame
	st, old     *State
	names       map[string]Val // explicit bindings (call sites: callee params/results)
	bound       map[string]Val // quantifier / spec-function params
	seqs        map[string]*seqView
	block       *ssa.BasicBlock
	phiOverride map[*ssa.Phi]Val
	atLoopHead  bool
	callSite    bool
	results     []Val
	inOld       bool
	noProgram   bool // axioms: no program variables
	absIdx      map[string]*absIndex
}

// absIndex: a bound variable v that is only used to index one sequence B is quantified over the absolute
// index V = off(B) + v, so that array reads appear as select(arr, V) with a bare index (trigger-friendly).
type absIndex struct {
	V       string
	baseKey string
	inOld   bool
}

func (env *specEnv) withState(st *State) *specEnv {
	n := *env
	n.st = st
	return &n
}

var mathInt = types.Typ[types.UntypedInt]
var boolT = types.Typ[types.Bool]

func (f *Frame) specBool(x SExpr, env *specEnv) string {
	v := f.specTerm(x, env)
	return v.T
}

func (f *Frame) specFail(format string, a ...interface{}) Val {
	f.e.errorf("spec: "+format, a...)
	return Val{T: "false", Typ: boolT}
}

func (f *Frame) specTerm(x SExpr, env *specEnv) Val {
	e := f.e
	switch n := x.(type) {
	case SInt:
		return Val{T: n.Val, Typ: mathInt}
	case SBool:
		if n.Val {
			return Val{T: "true", Typ: boolT}
		}
		return Val{T: "false", Typ: boolT}
	case SStr:
		return Val{T: e.strLit(n.Val), Typ: types.Typ[types.String]}
	case SNil:
		return Val{T: "NIL", Typ: types.Typ[types.UntypedNil]}
	case SIdent:
		return f.specIdent(n.Name, env)
	case SUn:
		v := f.specTerm(n.X, env)
		if n.Op == "!" {
			return Val{T: not(v.T), Typ: boolT}
		}
		return Val{T: fmt.Sprintf("(- %s)", v.T), Typ: mathInt}
	case SCond:
		c := f.specTerm(n.C, env)
		a := f.specTerm(n.A, env)
		b := f.specTerm(n.B, env)
		return Val{T: ite(c.T, a.T, b.T), Typ: a.Typ}
	case SBin:
		return f.specBin(n, env)
	case SQuant:
		return f.specQuant(n, env)
	case SSel:
		return f.specSel(n, env)
	case SIndex:
		return f.specIndex(n, env)
	case SSlice:
		return f.specSlice(n, env)
	case SCall:
		return f.specCall(n, env)
	}
	return f.specFail("unsupported expression %#v", x)
}

func (f *Frame) specIdent(name string, env *specEnv) Val {
	e := f.e
	if v, ok := env.bound[name]; ok {
		return v
	}
	if v, ok := env.names[name]; ok {
		return v
	}
	if g, ok := e.P.CS.Ghosts[name]; ok {
		sortS := e.P.ghostSort(name)
		return Val{T: e.getHeap(env.st, "ghost_"+name, sortS), Typ: ghostGoType(g.Type)}
	}
	if !env.callSite && !env.noProgram {
		if v, ok := f.lookupProgramVar(name, env); ok {
			return v
		}
	}
	// package-level constants and globals
	if obj := e.P.TPkg.Scope().Lookup(name); obj != nil {
		switch o := obj.(type) {
		case *types.Const:
			return constToVal(e, o.Val(), o.Type())
		case *types.Var:
			if g, ok := e.P.Pkg.Members[name].(*ssa.Global); ok {
				if isErrType(o.Type()) {
					return Val{T: "errG_" + sanitize(name), Typ: o.Type()}
				}
				gp := f.globalPtr(g)
				return Val{T: e.loadLoc(env.st, gp.Loc), Typ: o.Type()}
			}
		}
	}
	switch name {
	case "alloc":
		return Val{T: env.st.alloc, Typ: mathInt}
	case "MaxUint64":
		return Val{T: "18446744073709551615", Typ: mathInt}
	case "io_EOF":
		return Val{T: "errG_io_EOF", Typ: types.Universe.Lookup("error").Type()}
	case "os_ErrNotExist":
		return Val{T: "errG_os_ErrNotExist", Typ: types.Universe.Lookup("error").Type()}
	}
	return f.specFail("%s: unknown identifier %q", e.P.fnName(f.fn), name)
}

func isErrType(t types.Type) bool {
	return types.Identical(t, types.Universe.Lookup("error").Type())
}

func constToVal(e *Enc, v constant.Value, t types.Type) Val {
	switch v.Kind() {
	case constant.Bool:
		if constant.BoolVal(v) {
			return Val{T: "true", Typ: boolT}
		}
		return Val{T: "false", Typ: boolT}
	case constant.String:
		return Val{T: e.strLit(constant.StringVal(v)), Typ: types.Typ[types.String]}
	case constant.Int:
		bi, _ := new(big.Int).SetString(v.ExactString(), 10)
		return Val{T: smtInt(bi), Typ: mathInt}
	}
	return Val{T: "0", Typ: mathInt}
}

// ghostMaps: map types made for ghost state (SMT arrays); every other map type is a Go map (a reference into the map heaps)
var ghostMaps = map[types.Type]bool{}

func ghostGoType(t string) types.Type {
	switch strings.TrimSpace(t) {
	case "bool":
		return boolT
	case "string":
		return types.Typ[types.String]
	case "int", "uint64":
		return mathInt
	}
	if strings.HasPrefix(t, "map[") {
		i := strings.Index(t, "]")
		m := types.NewMap(ghostGoType(t[4:i]), ghostGoType(t[i+1:]))
		ghostMaps[m] = true
		return m
	}
	if strings.HasPrefix(t, "seq[") {
		m := types.NewMap(mathInt, ghostGoType(t[4:len(t)-1]))
		ghostMaps[m] = true
		return m
	}
	return mathInt
}

// lookupProgramVar resolves a source-level variable name at the env's program point.
func (f *Frame) lookupProgramVar(name string, env *specEnv) (Val, bool) {
	e := f.e
	fn := f.fn
	// result names
	if strings.HasPrefix(name, "result") && env.results != nil {
		idx := 0
		if name != "result" {
			fmt.Sscanf(name[6:], "%d", &idx)
		}
		if idx < len(env.results) {
			v := env.results[idx]
			if v.Typ == nil {
				v.Typ = fn.Signature.Results().At(idx).Type()
			}
			return v, true
		}
	}
	if env.results != nil {
		if f.contract != nil {
			for i, rn := range f.contract.Results {
				if rn == name && i < len(env.results) {
					v := env.results[i]
					v.Typ = fn.Signature.Results().At(i).Type()
					return v, true
				}
			}
		}
		for i := 0; i < fn.Signature.Results().Len(); i++ {
			if fn.Signature.Results().At(i).Name() == name && i < len(env.results) {
				v := env.results[i]
				v.Typ = fn.Signature.Results().At(i).Type()
				return v, true
			}
		}
	}
	// a parameter that is reassigned in the body is shadowed by its current value, except inside old()
	if env.inOld || env.block == nil {
		for _, p := range fn.Params {
			if p.Name() == name {
				v := f.vals[p]
				v.Typ = p.Type()
				return v, true
			}
		}
	}
	for _, fv := range fn.FreeVars {
		if fv.Name() == name {
			pv := f.val(fv)
			pt := fv.Type().(*types.Pointer).Elem()
			return f.loadPtr(pv, pt, env.st), true
		}
	}
	// loop-head phis
	if env.block != nil {
		// innermost loop header phis first, then enclosing headers that dominate
		for _, in := range env.block.Instrs {
			phi, ok := in.(*ssa.Phi)
			if !ok {
				break
			}
			if phi.Comment == name {
				if v, ok := env.phiOverride[phi]; ok {
					v.Typ = phi.Type()
					return v, true
				}
				v := f.val(phi)
				v.Typ = phi.Type()
				return v, true
			}
		}
	}
	// address-taken locals
	for _, b := range fn.Blocks {
		for _, in := range b.Instrs {
			if al, ok := in.(*ssa.Alloc); ok && al.Comment == name {
				if pv, ok := f.vals[al]; ok {
					pt := al.Type().(*types.Pointer).Elem()
					return f.loadPtr(pv, pt, env.st), true
				}
			}
		}
	}
	// DebugRef: latest definition dominating the point
	var best ssa.Value
	var bestBlock *ssa.BasicBlock
	bestIdx := -1
	for _, b := range fn.Blocks {
		if env.block != nil && !(b == env.block && !env.atLoopHead) && !b.Dominates(env.block) {
			continue
		}
		if env.block != nil && env.atLoopHead && b == env.block {
			continue
		}
		for i, in := range b.Instrs {
			if phi, isPhi := in.(*ssa.Phi); isPhi && phi.Comment == name {
				// a phi carrying the variable (e.g. the header phi of an earlier loop) is a definition too
				if _, defined := f.vals[phi]; defined {
					if best == nil || bestBlock.Dominates(b) && (bestBlock != b || i > bestIdx) {
						best, bestBlock, bestIdx = phi, b, i
					}
				}
				continue
			}
			dr, ok := in.(*ssa.DebugRef)
			if !ok || dr.IsAddr {
				continue
			}
			if nm := identName(dr); nm != name {
				continue
			}
			if os.Getenv("RTV_DEBUG") != "" {
				fmt.Fprintf(os.Stderr, "  cand %s: block %d idx %d X=%s pos=%v\n", name, b.Index, i, dr.X.Name(), e.P.Fset.Position(dr.Pos()))
			}
			if _, defined := f.vals[dr.X]; !defined {
				if _, isC := dr.X.(*ssa.Const); !isC {
					if _, isP := dr.X.(*ssa.Parameter); !isP {
						continue
					}
				}
			}
			if best == nil || bestBlock.Dominates(b) && (bestBlock != b || i > bestIdx) {
				best, bestBlock, bestIdx = dr.X, b, i
			}
		}
	}
	if c, isConst := best.(*ssa.Const); isConst && c.IsNil() {
		// "x := T{...}" for maps is recorded by go/ssa as a DebugRef to nil at the declaration; if every other reference
		// to the variable names one and the same value, the variable is that value from its definition on.
		var sole ssa.Value
		ok := true
		for _, b := range fn.Blocks {
			for _, in := range b.Instrs {
				dr, isDR := in.(*ssa.DebugRef)
				if !isDR || dr.IsAddr || identName(dr) != name {
					continue
				}
				if _, isC := dr.X.(*ssa.Const); isC {
					continue
				}
				if sole != nil && sole != dr.X {
					ok = false
				}
				sole = dr.X
			}
		}
		if ok && sole != nil {
			if in, isIn := sole.(ssa.Instruction); isIn {
				if _, defined := f.vals[sole]; defined && (env.block == nil || in.Block() == env.block || in.Block().Dominates(env.block)) {
					best = sole
				}
			}
		}
	}
	if best != nil {
		v := f.val(best)
		v.Typ = best.Type()
		if os.Getenv("RTV_DEBUG") != "" {
			fmt.Fprintf(os.Stderr, "lookup %s: best=%s (%T) -> %q\n", name, best.Name(), best, v.T)
		}
		return v, true
	}
	for _, p := range fn.Params {
		if p.Name() == name {
			v := f.vals[p]
			v.Typ = p.Type()
			return v, true
		}
	}
	_ = e
	return Val{}, false
}

func (f *Frame) loadPtr(pv Val, pt types.Type, st *State) Val {
	e := f.e
	if _, ok := isStruct(pt); ok && pv.Loc == nil {
		return Val{T: pv.T, Typ: types.NewPointer(pt)} // treat struct locals as pointers (field access works)
	}
	return Val{T: e.loadLoc(st, e.locOfPtr(pv, pt)), Typ: pt}
}

func (f *Frame) specBin(n SBin, env *specEnv) Val {
	switch n.Op {
	case "&&", "||", "==>", "<==>":
		a := f.specTerm(n.L, env)
		b := f.specTerm(n.R, env)
		switch n.Op {
		case "&&":
			return Val{T: and(a.T, b.T), Typ: boolT}
		case "||":
			return Val{T: or(a.T, b.T), Typ: boolT}
		case "==>":
			return Val{T: implies(a.T, b.T), Typ: boolT}
		default:
			return Val{T: eq(a.T, b.T), Typ: boolT}
		}
	}
	a := f.specTerm(n.L, env)
	b := f.specTerm(n.R, env)
	switch n.Op {
	case "==", "!=":
		t := f.specEq(a, b)
		if n.Op == "!=" {
			t = not(t)
		}
		return Val{T: t, Typ: boolT}
	case "<", "<=", ">", ">=":
		if a.Typ != nil && isString(a.Typ) {
			var c string
			switch n.Op {
			case "<":
				c = fmt.Sprintf("(slt %s %s)", a.T, b.T)
			case ">":
				c = fmt.Sprintf("(slt %s %s)", b.T, a.T)
			case "<=":
				c = fmt.Sprintf("(not (slt %s %s))", b.T, a.T)
			case ">=":
				c = fmt.Sprintf("(not (slt %s %s))", a.T, b.T)
			}
			return Val{T: c, Typ: boolT}
		}
		return Val{T: fmt.Sprintf("(%s %s %s)", n.Op, a.T, b.T), Typ: boolT}
	case "+":
		if a.Typ != nil && isString(a.Typ) {
			return Val{T: fmt.Sprintf("(scat %s %s)", a.T, b.T), Typ: a.Typ}
		}
		return Val{T: fmt.Sprintf("(+ %s %s)", a.T, b.T), Typ: mathInt}
	case "-":
		return Val{T: fmt.Sprintf("(- %s %s)", a.T, b.T), Typ: mathInt}
	case "*":
		return Val{T: fmt.Sprintf("(* %s %s)", a.T, b.T), Typ: mathInt}
	case "/":
		return Val{T: fmt.Sprintf("(div %s %s)", a.T, b.T), Typ: mathInt}
	case "%":
		return Val{T: fmt.Sprintf("(mod %s %s)", a.T, b.T), Typ: mathInt}
	case "<<":
		if k, ok := n.R.(SInt); ok {
			var kk int
			fmt.Sscan(k.Val, &kk)
			return Val{T: fmt.Sprintf("(* %s %s)", a.T, pow2(kk)), Typ: mathInt}
		}
	case ">>":
		if k, ok := n.R.(SInt); ok {
			var kk int
			fmt.Sscan(k.Val, &kk)
			return Val{T: fmt.Sprintf("(div %s %s)", a.T, pow2(kk)), Typ: mathInt}
		}
	case "&":
		if k, ok := n.R.(SInt); ok {
			var kk uint64
			fmt.Sscan(k.Val, &kk)
			return Val{T: andConst(a.T, kk), Typ: mathInt}
		}
		return Val{T: fmt.Sprintf("(band %s %s)", a.T, b.T), Typ: mathInt}
	case "|":
		return Val{T: fmt.Sprintf("(bor %s %s)", a.T, b.T), Typ: mathInt}
	}
	return f.specFail("unsupported operator %s", n.Op)
}

func (f *Frame) specEq(a, b Val) string {
	nilOf := func(v Val) string {
		if v.Typ == nil {
			return "0"
		}
		switch v.Typ.Underlying().(type) {
		case *types.Slice:
			return "" // special
		case *types.Interface:
			return "(mk-iface 0 0)"
		}
		return "0"
	}
	if a.T == "NIL" {
		a, b = b, a
	}
	if b.T == "NIL" {
		if a.Typ != nil {
			if _, ok := a.Typ.Underlying().(*types.Slice); ok {
				return fmt.Sprintf("(= (s-ref %s) 0)", a.T)
			}
		}
		return eq(a.T, nilOf(a))
	}
	if a.Typ != nil {
		if at, ok := isArray(a.Typ); ok && at.Len() <= 8 {
			var cs []string
			for i := int64(0); i < at.Len(); i++ {
				cs = append(cs, fmt.Sprintf("(= (select %s %d) (select %s %d))", a.T, i, b.T, i))
			}
			return and(cs...)
		}
	}
	return eq(a.T, b.T)
}

func (f *Frame) specQuant(n SQuant, env *specEnv) Val {
	e := f.e
	// expand defined (non-opaque) spec functions at the syntax level, so that the index analysis below sees through them
	n.Body = f.expandMacros(n.Body, 0)
	ne := *env
	ne.bound = map[string]Val{}
	for k, v := range env.bound {
		ne.bound[k] = v
	}
	ne.seqs = map[string]*seqView{}
	for k, v := range env.seqs {
		ne.seqs[k] = v
	}
	var binders []string
	var ranges []string
	var absPats []string
	for _, v := range n.Vars {
		e.n++
		vn := fmt.Sprintf("%s!q%d", v.Name, e.n)
		gt := f.resolveType(v.Type)
		if gt == nil {
			return f.specFail("unknown binder type %q", v.Type)
		}
		if sl, ok := gt.Underlying().(*types.Slice); ok {
			// bound sequence: array + offset + length
			es := e.tt().sortOf(sl.Elem())
			binders = append(binders, fmt.Sprintf("(%s_arr (Array Int %s))", vn, es), fmt.Sprintf("(%s_off Int)", vn), fmt.Sprintf("(%s_len Int)", vn))
			ne.seqs[v.Name] = &seqView{arr: vn + "_arr", off: vn + "_off", ln: vn + "_len", elem: sl.Elem()}
			ne.bound[v.Name] = Val{T: "SEQ:" + v.Name, Typ: gt}
			ranges = append(ranges, fmt.Sprintf("(>= %s_len 0)", vn), fmt.Sprintf("(>= %s_off 0)", vn))
			continue
		}
		binders = append(binders, fmt.Sprintf("(%s %s)", vn, e.tt().sortOf(gt)))
		ne.bound[v.Name] = Val{T: vn, Typ: gt}
		if v.Type == "int" || v.Type == "mathint" {
			if base, inOld, ok := soleIndexBase(n.Body, v.Name); ok {
				benv := env
				if inOld {
					oe := *env
					oe.st = env.old
					oe.inOld = true
					benv = &oe
				}
				// the base may mention binders introduced earlier in the same quantifier
				be2 := *benv
				be2.bound = ne.bound
				be2.seqs = ne.seqs
				be2.absIdx = ne.absIdx
				benv = &be2
				bv := f.specTerm(base, benv)
				if sv, ok := f.view(bv, benv); ok && sv.off != "0" {
					if ne.absIdx == nil {
						ne.absIdx = map[string]*absIndex{}
					} else {
						m := map[string]*absIndex{}
						for k, x := range ne.absIdx {
							m[k] = x
						}
						ne.absIdx = m
					}
					ne.absIdx[v.Name] = &absIndex{V: vn, baseKey: fmt.Sprintf("%#v", base), inOld: inOld}
					absPats = append(absPats, fmt.Sprintf("(select %s %s)", sv.arr, vn))
					ne.bound[v.Name] = Val{T: fmt.Sprintf("(- %s %s)", vn, sv.off), Typ: mathInt}
					continue
				}
			}
		}
		if isInteger(gt) && v.Type != "int" && v.Type != "ref" {
			if rc := e.tt().rangeConstraint(vn, gt); rc != "" {
				ranges = append(ranges, rc)
			}
		}
		if v.Type == "int" || v.Type == "mathint" {
			ne.bound[v.Name] = Val{T: vn, Typ: mathInt}
		}
	}
	body := f.specTerm(n.Body, &ne)
	q := "forall"
	bt := body.T
	if n.Forall {
		bt = implies(and(ranges...), bt)
	} else {
		q = "exists"
		bt = and(append(ranges, bt)...)
	}
	if len(absPats) == len(n.Vars) && len(absPats) > 0 && os.Getenv("RTV_PAT") != "" {
		// every bound variable is an absolute index: give the solver the bare array reads as (multi-)pattern
		return Val{T: fmt.Sprintf("(%s (%s) (! %s :pattern (%s)))", q, strings.Join(binders, " "), bt, strings.Join(absPats, " ")), Typ: boolT}
	}
	return Val{T: fmt.Sprintf("(%s (%s) %s)", q, strings.Join(binders, " "), bt), Typ: boolT}
}

func (f *Frame) resolveType(s string) types.Type {
	e := f.e
	s = strings.TrimSpace(s)
	switch {
	case strings.HasPrefix(s, "[]"):
		if t := f.resolveType(s[2:]); t != nil {
			return types.NewSlice(t)
		}
		return nil
	case strings.HasPrefix(s, "*"):
		if t := f.resolveType(s[1:]); t != nil {
			return types.NewPointer(t)
		}
		return nil
	case strings.HasPrefix(s, "map["):
		// Go map type map[K]V (a reference into the map heaps)
		depth, end := 0, -1
		for i := 3; i < len(s); i++ {
			if s[i] == '[' {
				depth++
			} else if s[i] == ']' {
				depth--
				if depth == 0 {
					end = i
					break
				}
			}
		}
		if end > 0 {
			k, v := f.resolveType(s[4:end]), f.resolveType(s[end+1:])
			if k != nil && v != nil {
				return types.NewMap(k, v)
			}
		}
		return nil
	case s == "mathint":
		return mathInt
	case s == "ref":
		return types.Typ[types.Uintptr]
	case s == "error":
		return types.Universe.Lookup("error").Type()
	}
	if o := types.Universe.Lookup(s); o != nil {
		if tn, ok := o.(*types.TypeName); ok {
			return tn.Type()
		}
	}
	if o := e.P.TPkg.Scope().Lookup(s); o != nil {
		if tn, ok := o.(*types.TypeName); ok {
			return tn.Type()
		}
	}
	return nil
}

// view returns the sequence view (array, offset, length) of a slice/string-like spec value.
func (f *Frame) view(v Val, env *specEnv) (*seqView, bool) {
	e := f.e
	if strings.HasPrefix(v.T, "SEQ:") {
		sv, ok := env.seqs[v.T[4:]]
		return sv, ok
	}
	if v.Typ == nil {
		return nil, false
	}
	if sl, ok := v.Typ.Underlying().(*types.Slice); ok {
		hn, hs := e.elemHeap(sl.Elem())
		h := e.getHeap(env.st, hn, hs)
		return &seqView{arr: fmt.Sprintf("(select %s (s-ref %s))", h, v.T), off: fmt.Sprintf("(s-off %s)", v.T), ln: fmt.Sprintf("(s-len %s)", v.T), elem: sl.Elem()}, true
	}
	return nil, false
}

func (f *Frame) specIndex(n SIndex, env *specEnv) Val {
	e := f.e
	x := f.specTerm(n.X, env)
	if sv, ok := f.view(x, env); ok {
		// absolute-index form
		if vname, c, ok := simpleIndex(n.I); ok {
			if ai := env.absIdx[vname]; ai != nil && ai.baseKey == fmt.Sprintf("%#v", n.X) && ai.inOld == env.inOld {
				idx := ai.V
				if c != "" {
					idx = fmt.Sprintf("(+ %s %s)", ai.V, c)
				}
				return Val{T: fmt.Sprintf("(select %s %s)", sv.arr, idx), Typ: sv.elem}
			}
		}
		i := f.specTerm(n.I, env)
		idx := i.T
		if sv.off != "0" {
			idx = fmt.Sprintf("(+ %s %s)", sv.off, i.T)
		}
		return Val{T: fmt.Sprintf("(select %s %s)", sv.arr, idx), Typ: sv.elem}
	}
	i := f.specTerm(n.I, env)
	if x.Typ == nil {
		return f.specFail("index of untyped value")
	}
	switch t := x.Typ.Underlying().(type) {
	case *types.Basic:
		if isString(x.Typ) {
			return Val{T: fmt.Sprintf("(sat %s %s)", x.T, i.T), Typ: types.Typ[types.Uint8]}
		}
	case *types.Array:
		return Val{T: fmt.Sprintf("(select %s %s)", x.T, i.T), Typ: t.Elem()}
	case *types.Map:
		if !ghostMaps[x.Typ] {
			// Go map: value stored under the key, or the zero value
			hn, vsort, psort := f.mapHeap(t)
			vals := e.getHeap(env.st, hn+"_v", vsort)
			pres := e.getHeap(env.st, hn+"_p", psort)
			rd := ite(fmt.Sprintf("(select (select %s %s) %s)", pres, x.T, i.T), fmt.Sprintf("(select (select %s %s) %s)", vals, x.T, i.T), e.tt().zero(t.Elem()))
			// typing invariant of the value read (as at a map lookup in code); only for ground terms: a read under a
			// binder (quantifier variable, parameter of an opaque definition) cannot be constrained from outside
			if !env.st.symbolic && !strings.Contains(rd, "!q") && !strings.Contains(rd, "pv!") && !strings.Contains(rd, "hv!") && len(env.bound) == 0 {
				if c := e.wfVal(rd, t.Elem(), env.st.alloc); c != "" && c != "true" {
					e.assert(c)
				}
			}
			return Val{T: rd, Typ: t.Elem()}
		}
		return Val{T: fmt.Sprintf("(select %s %s)", x.T, i.T), Typ: t.Elem()}
	case *types.Pointer:
		if at, ok := isArray(t.Elem()); ok {
			hn, hs := e.elemHeap(at.Elem())
			return Val{T: fmt.Sprintf("(select (select %s %s) %s)", e.getHeap(env.st, hn, hs), x.T, i.T), Typ: at.Elem()}
		}
	}
	return f.specFail("cannot index %s", x.T)
}

func (f *Frame) specSlice(n SSlice, env *specEnv) Val {
	x := f.specTerm(n.X, env)
	lo := "0"
	if n.Lo != nil {
		lo = f.specTerm(n.Lo, env).T
	}
	if strings.HasPrefix(x.T, "SEQ:") {
		sv := env.seqs[x.T[4:]]
		hi := sv.ln
		if n.Hi != nil {
			hi = f.specTerm(n.Hi, env).T
		}
		name := fmt.Sprintf("%s[%s:%s]", x.T[4:], lo, hi)
		env.seqs[name] = &seqView{arr: sv.arr, off: fmt.Sprintf("(+ %s %s)", sv.off, lo), ln: fmt.Sprintf("(- %s %s)", hi, lo), elem: sv.elem}
		return Val{T: "SEQ:" + name, Typ: x.Typ}
	}
	if x.Typ != nil && isString(x.Typ) {
		hi := fmt.Sprintf("(slen %s)", x.T)
		if n.Hi != nil {
			hi = f.specTerm(n.Hi, env).T
		}
		return Val{T: fmt.Sprintf("(ssub %s %s %s)", x.T, lo, hi), Typ: x.Typ}
	}
	if x.Typ != nil {
		if _, ok := x.Typ.Underlying().(*types.Slice); ok {
			hi := fmt.Sprintf("(s-len %s)", x.T)
			if n.Hi != nil {
				hi = f.specTerm(n.Hi, env).T
			}
			return Val{T: fmt.Sprintf("(mk-slice (s-ref %s) (+ (s-off %s) %s) (- %s %s) (- (s-cap %s) %s))", x.T, x.T, lo, hi, lo, x.T, lo), Typ: x.Typ}
		}
	}
	return f.specFail("cannot slice %s", x.T)
}

func (f *Frame) specSel(n SSel, env *specEnv) Val {
	e := f.e
	// qualified extern globals: io.EOF, os.ErrNotExist
	if id, ok := n.X.(SIdent); ok {
		if (id.Name == "io" && n.Sel == "EOF") || (id.Name == "os" && n.Sel == "ErrNotExist") {
			return Val{T: "errG_" + id.Name + "_" + n.Sel, Typ: types.Universe.Lookup("error").Type()}
		}
	}
	x := f.specTerm(n.X, env)
	if x.Typ == nil {
		return f.specFail("selector .%s on untyped value", n.Sel)
	}
	var st types.Type
	isPtr := false
	switch t := x.Typ.Underlying().(type) {
	case *types.Pointer:
		st = t.Elem()
		isPtr = true
	case *types.Struct:
		st = x.Typ
	default:
		return f.specFail("selector .%s on non-struct %s", n.Sel, x.Typ)
	}
	s, ok := isStruct(st)
	if !ok {
		return f.specFail("selector .%s on non-struct", n.Sel)
	}
	for i := 0; i < s.NumFields(); i++ {
		if s.Field(i).Name() != n.Sel {
			continue
		}
		ft := s.Field(i).Type()
		if isPtr {
			name := e.tt().structName(st)
			if _, isS := isStruct(ft); isS {
				return Val{T: e.embRef(x.T, name, i), Typ: types.NewPointer(ft)}
			}
			hn, hs := e.fieldHeap(name, i, ft)
			return Val{T: fmt.Sprintf("(select %s %s)", e.getHeap(env.st, hn, hs), x.T), Typ: ft}
		}
		sn := e.tt().structSortOf(st, s)
		return Val{T: fmt.Sprintf("(%s_%d %s)", sn, i, x.T), Typ: ft}
	}
	return f.specFail("no field %s in %s", n.Sel, st)
}

func (f *Frame) specCall(n SCall, env *specEnv) Val {
	e := f.e
	switch n.Fn {
	case "old":
		ne := *env
		ne.st = env.old
		ne.inOld = true
		return f.specTerm(n.Args[0], &ne)
	case "len":
		x := f.specTerm(n.Args[0], env)
		if sv, ok := f.view(x, env); ok {
			return Val{T: sv.ln, Typ: mathInt}
		}
		if x.Typ != nil {
			if isString(x.Typ) {
				return Val{T: fmt.Sprintf("(slen %s)", x.T), Typ: mathInt}
			}
			if at, ok := isArray(x.Typ); ok {
				return Val{T: fmt.Sprint(at.Len()), Typ: mathInt}
			}
			if mt, ok := x.Typ.Underlying().(*types.Map); ok {
				hn, _, _ := f.mapHeap(mt)
				ln := e.getHeap(env.st, hn+"_n", "(Array Int Int)")
				return Val{T: fmt.Sprintf("(select %s %s)", ln, x.T), Typ: mathInt}
			}
		}
		return f.specFail("len of %s", x.T)
	case "cap":
		x := f.specTerm(n.Args[0], env)
		return Val{T: fmt.Sprintf("(s-cap %s)", x.T), Typ: mathInt}
	case "fresh":
		x := f.specTerm(n.Args[0], env)
		ref := x.T
		if x.Typ != nil {
			if _, ok := x.Typ.Underlying().(*types.Slice); ok {
				ref = fmt.Sprintf("(s-ref %s)", x.T)
			}
		}
		return Val{T: e.isFresh(ref, f.freshBase(env)), Typ: boolT}
	case "allocated": // existed at entry
		x := f.specTerm(n.Args[0], env)
		ref := x.T
		if x.Typ != nil {
			if _, ok := x.Typ.Underlying().(*types.Slice); ok {
				ref = fmt.Sprintf("(s-ref %s)", x.T)
			}
		}
		return Val{T: fmt.Sprintf("(<= (base %s) %s)", ref, f.freshBase(env)), Typ: boolT}
	case "isalloc": // allocated by now (in the state the formula is evaluated in)
		x := f.specTerm(n.Args[0], env)
		ref := x.T
		if x.Typ != nil {
			if _, ok := x.Typ.Underlying().(*types.Slice); ok {
				ref = fmt.Sprintf("(s-ref %s)", x.T)
			}
		}
		return Val{T: fmt.Sprintf("(<= (base %s) %s)", ref, env.st.alloc), Typ: boolT}
	case "istype":
		x := f.specTerm(n.Args[0], env)
		ty, ok := n.Args[1].(SType)
		var gt types.Type
		if ok {
			gt = f.resolveType(ty.Text)
		} else if id, ok := n.Args[1].(SIdent); ok {
			gt = f.resolveType(id.Name)
		}
		if gt == nil {
			return f.specFail("istype: unknown type")
		}
		return Val{T: fmt.Sprintf("(= (i-tag %s) %d)", x.T, e.tt().tagOf(gt)), Typ: boolT}
	case "asptr": // asptr(iface, *T): the pointer held by the interface
		x := f.specTerm(n.Args[0], env)
		ty := n.Args[1].(SType)
		gt := f.resolveType(ty.Text)
		return Val{T: fmt.Sprintf("(i-ref %s)", x.T), Typ: gt}
	case "asStr": // asStr(b): the string a byte slice was converted from (b := []byte(s))
		x := f.specTerm(n.Args[0], env)
		e.declFun("bstr", []string{sInt}, sStr)
		return Val{T: fmt.Sprintf("(bstr (s-ref %s))", x.T), Typ: types.Typ[types.String]}
	case "iref": // iref(iface): the reference held by an interface value
		x := f.specTerm(n.Args[0], env)
		return Val{T: fmt.Sprintf("(i-ref %s)", x.T), Typ: mathInt}
	case "min":
		a := f.specTerm(n.Args[0], env)
		b := f.specTerm(n.Args[1], env)
		return Val{T: fmt.Sprintf("(ite (< %s %s) %s %s)", a.T, b.T, a.T, b.T), Typ: mathInt}
	case "ref": // ref(slice): backing array identity
		x := f.specTerm(n.Args[0], env)
		return Val{T: fmt.Sprintf("(s-ref %s)", x.T), Typ: mathInt}
	case "off":
		x := f.specTerm(n.Args[0], env)
		return Val{T: fmt.Sprintf("(s-off %s)", x.T), Typ: mathInt}
	case "haskey": // haskey(m, k): k is a key of the Go map m
		m := f.specTerm(n.Args[0], env)
		k := f.specTerm(n.Args[1], env)
		mt, ok := m.Typ.Underlying().(*types.Map)
		if !ok {
			return f.specFail("haskey needs a map")
		}
		hn, _, psort := f.mapHeap(mt)
		if os.Getenv("RTV_DEBUG") != "" {
			fmt.Fprintf(os.Stderr, "haskey: m=%q %#v\n", m.T, n.Args[0])
		}
		pres := e.getHeap(env.st, hn+"_p", psort)
		return Val{T: fmt.Sprintf("(select (select %s %s) %s)", pres, m.T, k.T), Typ: boolT}
	case "isExist":
		x := f.specTerm(n.Args[0], env)
		return Val{T: fmt.Sprintf("(is-exist %s)", x.T), Typ: boolT}
	case "isNotExist":
		x := f.specTerm(n.Args[0], env)
		return Val{T: fmt.Sprintf("(is-notexist %s)", x.T), Typ: boolT}
	case "str": // str(b []byte): string with the bytes of b
		return f.specStrOf(n.Args[0], env)
	case "bytesEq": // same length and content
		a := f.specTerm(n.Args[0], env)
		b := f.specTerm(n.Args[1], env)
		av, ok1 := f.view(a, env)
		bv, ok2 := f.view(b, env)
		if !ok1 || !ok2 {
			return f.specFail("bytesEq needs slices")
		}
		e.n++
		k := fmt.Sprintf("k!be%d", e.n)
		// absolute index over the first slice (bare select as trigger), as in the model of bytes.Compare
		return Val{T: fmt.Sprintf("(and (= %s %s) (forall ((%s Int)) (! (=> (and (<= %s %s) (< %s (+ %s %s))) (= (select %s %s) (select %s (+ (- %s %s) %s)))) :pattern ((select %s %s)))))",
			av.ln, bv.ln, k, av.off, k, k, av.off, av.ln, av.arr, k, bv.arr, k, av.off, bv.off, av.arr, k), Typ: boolT}
	case "int", "uint64", "uint32", "uint8", "uint16", "int64", "byte":
		// conversion in specs: mathematical identity
		return f.specTerm(n.Args[0], env)
	case "wrap64":
		x := f.specTerm(n.Args[0], env)
		return Val{T: fmt.Sprintf("(mod %s 18446744073709551616)", x.T), Typ: mathInt}
	}
	// user spec function
	if sf, ok := e.P.CS.Specs[n.Fn]; ok {
		return f.specUser(sf, n, env)
	}
	return f.specFail("unknown spec function %q", n.Fn)
}

func (f *Frame) specStrOf(x SExpr, env *specEnv) Val {
	e := f.e
	v := f.specTerm(x, env)
	sv, ok := f.view(v, env)
	if !ok {
		return f.specFail("str() needs a slice")
	}
	e.needStrOf()
	return Val{T: fmt.Sprintf("(str_of %s %s %s)", sv.arr, sv.off, sv.ln), Typ: types.Typ[types.String]}
}

func (f *Frame) specUser(sf *SpecFunc, n SCall, env *specEnv) Val {
	e := f.e
	if len(n.Args) != len(sf.Params) {
		return f.specFail("%s: want %d args", sf.Name, len(sf.Params))
	}
	rt := f.resolveType(sf.Result)
	if sf.Result == "bool" {
		rt = boolT
	}
	if sf.Result == "int" || sf.Result == "mathint" {
		rt = mathInt
	}
	if sf.Body != nil && sf.Opaque {
		return f.specOpaqueDefined(sf, n, env, rt)
	}
	if sf.Body != nil {
		// inline expansion
		ne := &specEnv{f: f, st: env.st, old: env.old, bound: map[string]Val{}, seqs: map[string]*seqView{}, callSite: true, noProgram: true, names: map[string]Val{}}
		for i, p := range sf.Params {
			a := f.specTerm(n.Args[i], env)
			pt := f.resolveType(p.Type)
			if p.Type == "int" || p.Type == "mathint" {
				pt = mathInt
			}
			if strings.HasPrefix(a.T, "SEQ:") {
				ne.seqs[p.Name] = env.seqs[a.T[4:]]
				ne.bound[p.Name] = Val{T: "SEQ:" + p.Name, Typ: pt}
				continue
			}
			if pt != nil {
				if _, isSl := pt.Underlying().(*types.Slice); isSl {
					if sv, ok := f.view(a, env); ok {
						ne.seqs[p.Name] = sv
						ne.bound[p.Name] = Val{T: "SEQ:" + p.Name, Typ: pt}
						continue
					}
				}
			}
			if pt == nil {
				pt = a.Typ
			}
			ne.bound[p.Name] = Val{T: a.T, Typ: pt}
		}
		r := f.specTerm(sf.Body, ne)
		if rt != nil {
			r.Typ = rt
		}
		// a long closed integer term gets a name (a definition, asserted once): nested uses of a macro such as
		// vval(buf[vlen(buf):]) would otherwise copy the whole expansion at every occurrence
		if rt == mathInt && len(r.T) > 300 && !strings.Contains(r.T, "!q") && !strings.HasPrefix(r.T, "SEQ:") && os.Getenv("RTV_NAME") != "" {
			r.T = e.define("sp_"+sanitize(sf.Name), sInt, r.T)
		}
		return r
	}
	// opaque: uninterpreted function
	var argSorts, args []string
	for i, p := range sf.Params {
		a := f.specTerm(n.Args[i], env)
		pt := f.resolveType(p.Type)
		if pt != nil {
			if sl, isSl := pt.Underlying().(*types.Slice); isSl {
				sv, ok := f.view(a, env)
				if !ok {
					return f.specFail("%s: arg %d must be a slice", sf.Name, i)
				}
				argSorts = append(argSorts, "(Array Int "+e.tt().sortOf(sl.Elem())+")", sInt, sInt)
				args = append(args, sv.arr, sv.off, sv.ln)
				continue
			}
		}
		if pt == nil || p.Type == "int" {
			argSorts = append(argSorts, sInt)
		} else {
			argSorts = append(argSorts, e.tt().sortOf(pt))
		}
		args = append(args, a.T)
	}
	rs := sInt
	if rt != nil {
		rs = e.tt().sortOf(rt)
	}
	if strings.HasPrefix(sf.Result, "map[") {
		rs = ghostTypeSort(sf.Result)
		rt = ghostGoType(sf.Result)
	}
	e.declFun("sp_"+sf.Name, argSorts, rs)
	if len(args) == 0 {
		return Val{T: "sp_" + sf.Name, Typ: rt}
	}
	return Val{T: fmt.Sprintf("(sp_%s %s)", sf.Name, strings.Join(args, " ")), Typ: rt}
}

// simpleIndex recognises index expressions of the form v, v+c, v-c (v identifier, c literal).
func simpleIndex(x SExpr) (string, string, bool) {
	switch n := x.(type) {
	case SIdent:
		return n.Name, "", true
	case SBin:
		id, ok1 := n.L.(SIdent)
		c, ok2 := n.R.(SInt)
		if ok1 && ok2 && n.Op == "+" {
			return id.Name, c.Val, true
		}
		if ok1 && ok2 && n.Op == "-" {
			return id.Name, "(- " + c.Val + ")", true
		}
	}
	return "", "", false
}

// soleIndexBase: if every use of bound variable v as (part of) an index expression in body is a simple index
// into one and the same base expression, return that base.
func soleIndexBase(body SExpr, v string) (SExpr, bool, bool) {
	var base SExpr
	baseKey := ""
	ok := true
	found := false
	oldDepth := 0
	baseOld := false
	var mentions func(x SExpr) bool
	mentions = func(x SExpr) bool {
		m := false
		walkSpec(x, func(y SExpr) bool {
			if id, isId := y.(SIdent); isId && id.Name == v {
				m = true
			}
			return true
		})
		return m
	}
	var walk func(x SExpr)
	visit := func(x SExpr) bool {
		switch n := x.(type) {
		case SCall:
			if n.Fn == "old" && len(n.Args) == 1 {
				oldDepth++
				walk(n.Args[0])
				oldDepth--
				return false
			}
		case SQuant:
			for _, bv := range n.Vars {
				if bv.Name == v {
					return false // shadowed
				}
			}
		case SIndex:
			if mentions(n.I) {
				name, _, simple := simpleIndex(n.I)
				if !simple || name != v {
					return true // a non-simple index use: left in relative form
				}
				if mentions(n.X) {
					ok = false
					return true
				}
				k := fmt.Sprintf("%#v", n.X)
				if baseKey == "" {
					// the first simple use decides the absolute base; uses of other bases stay relative
					baseKey, base = k, n.X
					baseOld = oldDepth > 0
					found = true
				}
			}
		case SSlice:
			if (n.Lo != nil && mentions(n.Lo)) || (n.Hi != nil && mentions(n.Hi)) {
				ok = false
			}
		}
		return true
	}
	walk = func(x SExpr) { walkSpec(x, visit) }
	walk(body)
	return base, baseOld, ok && found
}

func walkSpec(x SExpr, fn func(SExpr) bool) {
	if x == nil || !fn(x) {
		return
	}
	switch n := x.(type) {
	case SUn:
		walkSpec(n.X, fn)
	case SBin:
		walkSpec(n.L, fn)
		walkSpec(n.R, fn)
	case SCond:
		walkSpec(n.C, fn)
		walkSpec(n.A, fn)
		walkSpec(n.B, fn)
	case SQuant:
		walkSpec(n.Body, fn)
	case SCall:
		for _, a := range n.Args {
			walkSpec(a, fn)
		}
	case SSel:
		walkSpec(n.X, fn)
	case SIndex:
		walkSpec(n.X, fn)
		walkSpec(n.I, fn)
	case SSlice:
		walkSpec(n.X, fn)
		if n.Lo != nil {
			walkSpec(n.Lo, fn)
		}
		if n.Hi != nil {
			walkSpec(n.Hi, fn)
		}
	}
}

func (e *Enc) needStrOf() {
	e.declFun("str_of", []string{"(Array Int Int)", sInt, sInt}, sStr)
	if !e.declared["str_of_ax"] {
		e.declared["str_of_ax"] = true
		e.assertGlobal("(forall ((a (Array Int Int)) (o Int) (n Int)) (! (=> (>= n 0) (= (slen (str_of a o n)) n)) :pattern ((str_of a o n))))")
		e.assertGlobal("(forall ((a (Array Int Int)) (o Int) (n Int) (k Int)) (! (=> (and (<= 0 k) (< k n)) (= (sat (str_of a o n) k) (select a (+ o k)))) :pattern ((sat (str_of a o n) k))))")
	}
}

type opaqueInfo struct {
	reads    []heapRead
	argSorts []string
}

// specOpaqueDefined: a defined spec function used through an uninterpreted symbol. Its arguments are the explicit
// parameters followed by the heaps its body reads; one quantified axiom states the definition.
func (f *Frame) specOpaqueDefined(sf *SpecFunc, n SCall, env *specEnv, rt types.Type) Val {
	e := f.e
	info := e.opaques[sf.Name]
	rs := sInt
	if rt != nil {
		rs = e.tt().sortOf(rt)
	}
	if info == nil {
		info = &opaqueInfo{}
		e.opaques[sf.Name] = info
		var reads []heapRead
		sym := &State{heaps: map[string]string{}, alloc: "alloc0", symbolic: true, reads: &reads}
		ne := &specEnv{f: f, st: sym, old: sym, bound: map[string]Val{}, seqs: map[string]*seqView{}, callSite: true, noProgram: true, names: map[string]Val{}}
		var binders, args []string
		for _, p := range sf.Params {
			pt := f.resolveType(p.Type)
			if p.Type == "int" || p.Type == "mathint" {
				pt = mathInt
			}
			if pt == nil {
				f.specFail("%s: unknown parameter type %s", sf.Name, p.Type)
				pt = mathInt
			}
			vn := "pv!" + p.Name
			binders = append(binders, fmt.Sprintf("(%s %s)", vn, e.tt().sortOf(pt)))
			args = append(args, vn)
			info.argSorts = append(info.argSorts, e.tt().sortOf(pt))
			ne.bound[p.Name] = Val{T: vn, Typ: pt}
		}
		body := f.specTerm(sf.Body, ne)
		info.reads = reads
		sorts := append([]string{}, info.argSorts...)
		for _, r := range reads {
			binders = append(binders, fmt.Sprintf("(%s %s)", r.v, r.sort))
			args = append(args, r.v)
			sorts = append(sorts, r.sort)
		}
		e.declFun("sp_"+sf.Name, sorts, rs)
		app := fmt.Sprintf("(sp_%s %s)", sf.Name, strings.Join(args, " "))
		e.assertGlobal(fmt.Sprintf("(forall (%s) (! (= %s %s) :pattern (%s)))", strings.Join(binders, " "), app, body.T, app))
		// footprint lemma (a consequence of the definition by congruence): the value only depends on the heap
		// locations the body reads
		if len(reads) > 0 {
			fps := footprint(body.T)
			var b2, args2, conds []string
			ren := func(t string) string {
				for _, r := range reads {
					t = strings.ReplaceAll(t, r.v, r.v+"_2")
				}
				return t
			}
			for _, p := range sf.Params {
				pt := f.resolveType(p.Type)
				if p.Type == "int" || p.Type == "mathint" || pt == nil {
					pt = mathInt
				}
				b2 = append(b2, fmt.Sprintf("(pv!%s %s)", p.Name, e.tt().sortOf(pt)))
				args2 = append(args2, "pv!"+p.Name)
			}
			argsB := append([]string{}, args2...)
			for _, r := range reads {
				b2 = append(b2, fmt.Sprintf("(%s %s)", r.v, r.sort), fmt.Sprintf("(%s_2 %s)", r.v, r.sort))
				args2 = append(args2, r.v)
				argsB = append(argsB, r.v+"_2")
			}
			for _, fp := range fps {
				conds = append(conds, fmt.Sprintf("(= %s %s)", fp, ren(fp)))
			}
			appA := fmt.Sprintf("(sp_%s %s)", sf.Name, strings.Join(args2, " "))
			appB := fmt.Sprintf("(sp_%s %s)", sf.Name, strings.Join(argsB, " "))
			e.assertGlobal(fmt.Sprintf("(forall (%s) (! (=> %s (= %s %s)) :pattern (%s %s)))", strings.Join(b2, " "), and(conds...), appA, appB, appA, appB))
		}
	}
	var args []string
	for i := range sf.Params {
		a := f.specTerm(n.Args[i], env)
		args = append(args, a.T)
	}
	for _, r := range info.reads {
		args = append(args, e.getHeap(env.st, r.name, r.sort))
	}
	return Val{T: fmt.Sprintf("(sp_%s %s)", sf.Name, strings.Join(args, " ")), Typ: rt}
}

// footprint returns the distinct outermost heap reads "(select hv!X t)" occurring in a term.
func footprint(term string) []string {
	var out []string
	seen := map[string]bool{}
	for i := 0; i < len(term); i++ {
		if strings.HasPrefix(term[i:], "(select hv!") {
			depth := 0
			j := i
			for ; j < len(term); j++ {
				if term[j] == '(' {
					depth++
				} else if term[j] == ')' {
					depth--
					if depth == 0 {
						break
					}
				}
			}
			sub := term[i : j+1]
			if !seen[sub] {
				seen[sub] = true
				out = append(out, sub)
			}
		}
	}
	return out
}

var macroCounter int

// expandMacros replaces calls of defined, non-opaque spec functions by their bodies (capture-avoiding).
func (f *Frame) expandMacros(x SExpr, depth int) SExpr {
	if x == nil || depth > 12 {
		return x
	}
	rec := func(y SExpr) SExpr { return f.expandMacros(y, depth) }
	switch n := x.(type) {
	case SUn:
		return SUn{n.Op, rec(n.X)}
	case SBin:
		return SBin{n.Op, rec(n.L), rec(n.R)}
	case SCond:
		return SCond{rec(n.C), rec(n.A), rec(n.B)}
	case SQuant:
		return SQuant{n.Forall, n.Vars, rec(n.Body)}
	case SSel:
		return SSel{rec(n.X), n.Sel}
	case SIndex:
		return SIndex{rec(n.X), rec(n.I)}
	case SSlice:
		var lo, hi SExpr
		if n.Lo != nil {
			lo = rec(n.Lo)
		}
		if n.Hi != nil {
			hi = rec(n.Hi)
		}
		return SSlice{rec(n.X), lo, hi}
	case SCall:
		var args []SExpr
		for _, a := range n.Args {
			args = append(args, rec(a))
		}
		sf, ok := f.e.P.CS.Specs[n.Fn]
		if ok && sf.Body != nil && !sf.Opaque && len(args) == len(sf.Params) {
			sub := map[string]SExpr{}
			for i, p := range sf.Params {
				sub[p.Name] = args[i]
			}
			return f.expandMacros(substSpec(sf.Body, sub), depth+1)
		}
		return SCall{n.Fn, args}
	}
	return x
}

// substSpec substitutes identifiers; binders inside the substituted body are renamed apart.
func substSpec(x SExpr, sub map[string]SExpr) SExpr {
	if x == nil {
		return nil
	}
	rec := func(y SExpr) SExpr { return substSpec(y, sub) }
	switch n := x.(type) {
	case SIdent:
		if r, ok := sub[n.Name]; ok {
			return r
		}
		return n
	case SUn:
		return SUn{n.Op, rec(n.X)}
	case SBin:
		return SBin{n.Op, rec(n.L), rec(n.R)}
	case SCond:
		return SCond{rec(n.C), rec(n.A), rec(n.B)}
	case SQuant:
		ns := map[string]SExpr{}
		for k, v := range sub {
			ns[k] = v
		}
		var vars []SVar
		for _, v := range n.Vars {
			macroCounter++
			nn := fmt.Sprintf("%s_m%d", v.Name, macroCounter)
			vars = append(vars, SVar{nn, v.Type})
			ns[v.Name] = SIdent{nn}
		}
		return SQuant{n.Forall, vars, substSpec(n.Body, ns)}
	case SSel:
		return SSel{rec(n.X), n.Sel}
	case SIndex:
		return SIndex{rec(n.X), rec(n.I)}
	case SSlice:
		var lo, hi SExpr
		if n.Lo != nil {
			lo = rec(n.Lo)
		}
		if n.Hi != nil {
			hi = rec(n.Hi)
		}
		return SSlice{rec(n.X), lo, hi}
	case SCall:
		var args []SExpr
		for _, a := range n.Args {
			args = append(args, rec(a))
		}
		return SCall{n.Fn, args}
	}
	return x
}

// freshBase: the allocation mark that fresh()/allocated() refer to: the entry of the function under verification, also
// inside the loop invariants of a closure inlined into it; at a call site, the state before the call.
func (f *Frame) freshBase(env *specEnv) string {
	if !env.callSite && f.parent != nil {
		return f.topFrame().alloc0
	}
	return env.old.alloc
}
