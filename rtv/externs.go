package main

// Built-in models of standard-library functions (trusted; listed in the evidence).

import (
	"fmt"
	"go/types"
	"strings"

	"golang.org/x/tools/go/ssa"
)

type externModel func(f *Frame, in ssa.Instruction, guard string, st *State, args []Val, rt types.Type) Val

var externModels map[string]externModel

var externModelDocs = map[string]string{
	"bytes.Compare":                         "result in {-1,0,1}; 0 iff equal length and content",
	"bytes.Equal":                           "true iff equal length and content",
	"(encoding/binary.bigEndian).Uint16":    "big-endian read of 2 bytes; panics if len < 2",
	"(encoding/binary.bigEndian).Uint32":    "big-endian read of 4 bytes; panics if len < 4",
	"(encoding/binary.bigEndian).Uint64":    "big-endian read of 8 bytes; panics if len < 8",
	"(encoding/binary.bigEndian).PutUint16": "big-endian write of 2 bytes; panics if len < 2",
	"(encoding/binary.bigEndian).PutUint32": "big-endian write of 4 bytes; panics if len < 4",
	"(encoding/binary.bigEndian).PutUint64": "big-endian write of 8 bytes; panics if len < 8",
	"os.IsExist":                            "uninterpreted predicate on the error value; false for nil",
	"os.IsNotExist":                         "uninterpreted predicate on the error value; false for nil",
	"strings.HasPrefix":                     "len(p) <= len(s) and s[:len(p)] == p",
	"strings.HasSuffix":                     "len(p) <= len(s) and s[len(s)-len(p):] == p",
}

func init() {
	externModels = map[string]externModel{
		"bytes.Compare": modelBytesCompare,
		"sort.Search":   modelSortSearch,
		"bytes.Equal":   modelBytesEqual,
		"(encoding/binary.bigEndian).Uint16": func(f *Frame, in ssa.Instruction, g string, st *State, a []Val, rt types.Type) Val {
			return modelBEGet(f, in, g, st, a, rt, 2)
		},
		"(encoding/binary.bigEndian).Uint32": func(f *Frame, in ssa.Instruction, g string, st *State, a []Val, rt types.Type) Val {
			return modelBEGet(f, in, g, st, a, rt, 4)
		},
		"(encoding/binary.bigEndian).Uint64": func(f *Frame, in ssa.Instruction, g string, st *State, a []Val, rt types.Type) Val {
			return modelBEGet(f, in, g, st, a, rt, 8)
		},
		"(encoding/binary.bigEndian).PutUint16": func(f *Frame, in ssa.Instruction, g string, st *State, a []Val, rt types.Type) Val {
			return modelBEPut(f, in, g, st, a, rt, 2)
		},
		"(encoding/binary.bigEndian).PutUint32": func(f *Frame, in ssa.Instruction, g string, st *State, a []Val, rt types.Type) Val {
			return modelBEPut(f, in, g, st, a, rt, 4)
		},
		"(encoding/binary.bigEndian).PutUint64": func(f *Frame, in ssa.Instruction, g string, st *State, a []Val, rt types.Type) Val {
			return modelBEPut(f, in, g, st, a, rt, 8)
		},
		"os.IsExist": func(f *Frame, in ssa.Instruction, g string, st *State, a []Val, rt types.Type) Val {
			return Val{T: fmt.Sprintf("(is-exist %s)", a[0].T), Typ: rt}
		},
		"os.IsNotExist": func(f *Frame, in ssa.Instruction, g string, st *State, a []Val, rt types.Type) Val {
			return Val{T: fmt.Sprintf("(is-notexist %s)", a[0].T), Typ: rt}
		},
		"strings.HasPrefix": func(f *Frame, in ssa.Instruction, g string, st *State, a []Val, rt types.Type) Val {
			s, p := a[0].T, a[1].T
			return Val{T: fmt.Sprintf("(and (<= (slen %s) (slen %s)) (= (ssub %s 0 (slen %s)) %s))", p, s, s, p, p), Typ: rt}
		},
		"strings.HasSuffix": func(f *Frame, in ssa.Instruction, g string, st *State, a []Val, rt types.Type) Val {
			s, p := a[0].T, a[1].T
			return Val{T: fmt.Sprintf("(and (<= (slen %s) (slen %s)) (= (ssub %s (- (slen %s) (slen %s)) (slen %s)) %s))", p, s, s, s, p, s, p), Typ: rt}
		},
	}
}

// sort.Search(n, f): result in [0,n]; f is run on an arbitrary index in [0,n) (its obligations are checked once,
// for every index), and everything it may write is havocked (it may run any number of times).
func modelSortSearch(f *Frame, in ssa.Instruction, guard string, st *State, args []Val, rt types.Type) Val {
	e := f.e
	n := args[0]
	j := e.fresh("search_j", sInt)
	e.assert(fmt.Sprintf("(and (<= 0 %s) (<= %s %s))", j, j, n.T))
	if clo := args[1].Clo; clo != nil {
		i := e.fresh("search_i", sInt)
		e.assert(fmt.Sprintf("(and (<= 0 %s) (< %s %s))", i, i, n.T))
		g := e.define("search_g", sBool, and(guard, fmt.Sprintf("(> %s 0)", n.T)))
		sub := st.clone()
		f.callFunc(in, clo.Fn, clo.Bindings, g, sub, []Val{{T: i, Typ: types.Typ[types.Int]}}, types.Typ[types.Bool])
		f.havocWrites(clo.Fn, st)
		// what binary search guarantees for ANY predicate that is a function of its argument (its loop invariant
		// f(lo-1) == false, f(hi) == true at the evaluated points): the result j has f(j-1) false if j > 0 and f(j)
		// true if j < n. The predicate is re-executed symbolically at j-1 and at j in the state after the search;
		// this presumes its result does not depend on the locations it writes itself (listed as an assumption).
		e.note("sort.Search: result characterised by re-executing the predicate at result-1 (false) and result (true); presumes the predicate's value does not depend on what the predicate writes")
		e.mute++
		for k := 0; k < 2; k++ {
			idx, cond := fmt.Sprintf("(- %s 1)", j), fmt.Sprintf("(> %s 0)", j)
			if k == 1 {
				idx, cond = j, fmt.Sprintf("(< %s %s)", j, n.T)
			}
			iv := e.define("search_k", sInt, idx)
			g2 := e.define("search_gk", sBool, and(guard, cond))
			sub2 := st.clone()
			r := f.callFunc(in, clo.Fn, clo.Bindings, g2, sub2, []Val{{T: iv, Typ: types.Typ[types.Int]}}, types.Typ[types.Bool])
			if k == 0 {
				e.assume(g2, fmt.Sprintf("(not %s)", r.T))
			} else {
				e.assume(g2, r.T)
			}
		}
		e.mute--
	} else {
		e.note("sort.Search with an unknown function value: all heaps havocked")
		f.havocAll(st)
	}
	return Val{T: j, Typ: rt}
}

func byteHeap(f *Frame, st *State) (string, string, string) {
	hn, hs := f.e.elemHeap(types.Typ[types.Uint8])
	return hn, hs, f.e.getHeap(st, hn, hs)
}

func contentEq(f *Frame, st *State, a, b Val) string {
	e := f.e
	_, _, h := byteHeap(f, st)
	aa := e.define("ce_a", "(Array Int Int)", fmt.Sprintf("(select %s (s-ref %s))", h, a.T))
	ba := e.define("ce_b", "(Array Int Int)", fmt.Sprintf("(select %s (s-ref %s))", h, b.T))
	eqv := e.fresh("bytes_eq", sBool)
	w := e.fresh("bytes_diff", sInt)
	e.assert(fmt.Sprintf("(=> %s (and (= (s-len %s) (s-len %s)) (forall ((k Int)) (! (=> (and (<= (s-off %s) k) (< k (+ (s-off %s) (s-len %s)))) (= (select %s k) (select %s (+ (- k (s-off %s)) (s-off %s))))) :pattern ((select %s k))))))",
		eqv, a.T, b.T, a.T, a.T, a.T, aa, ba, a.T, b.T, aa))
	e.assert(fmt.Sprintf("(=> (not %s) (or (not (= (s-len %s) (s-len %s))) (and (<= 0 %s) (< %s (s-len %s)) (not (= (select %s (+ (s-off %s) %s)) (select %s (+ (s-off %s) %s)))))))",
		eqv, a.T, b.T, w, w, a.T, aa, a.T, w, ba, b.T, w))
	return eqv
}

func modelBytesCompare(f *Frame, in ssa.Instruction, guard string, st *State, args []Val, rt types.Type) Val {
	e := f.e
	eqv := contentEq(f, st, args[0], args[1])
	r := e.fresh("cmp", sInt)
	e.assert(fmt.Sprintf("(and (<= (- 1) %s) (<= %s 1) (= (= %s 0) %s))", r, r, r, eqv))
	return Val{T: r, Typ: rt}
}

func modelBytesEqual(f *Frame, in ssa.Instruction, guard string, st *State, args []Val, rt types.Type) Val {
	return Val{T: contentEq(f, st, args[0], args[1]), Typ: rt}
}

func modelBEGet(f *Frame, in ssa.Instruction, guard string, st *State, args []Val, rt types.Type, n int) Val {
	b := args[len(args)-1]
	f.rtCheck("index", in, guard, fmt.Sprintf("(>= (s-len %s) %d)", b.T, n), fmt.Sprintf("BigEndian.Uint%d", n*8))
	_, _, h := byteHeap(f, st)
	arr := f.e.define("be_a", "(Array Int Int)", fmt.Sprintf("(select %s (s-ref %s))", h, b.T))
	var parts []string
	for i := 0; i < n; i++ {
		parts = append(parts, fmt.Sprintf("(* (select %s (+ (s-off %s) %d)) %s)", arr, b.T, i, pow2(8*(n-1-i))))
	}
	for i := 0; i < n; i++ {
		f.e.assert(fmt.Sprintf("(and (<= 0 (select %s (+ (s-off %s) %d))) (<= (select %s (+ (s-off %s) %d)) 255))", arr, b.T, i, arr, b.T, i))
	}
	return Val{T: f.e.define("be_v", sInt, "(+ "+strings.Join(parts, " ")+")"), Typ: rt}
}

func modelBEPut(f *Frame, in ssa.Instruction, guard string, st *State, args []Val, rt types.Type, n int) Val {
	e := f.e
	b, v := args[len(args)-2], args[len(args)-1]
	f.rtCheck("index", in, guard, fmt.Sprintf("(>= (s-len %s) %d)", b.T, n), fmt.Sprintf("BigEndian.PutUint%d", n*8))
	hn, hs, h := byteHeap(f, st)
	f.frameCheckRegion(in, hn, fmt.Sprintf("(s-ref %s)", b.T), fmt.Sprintf("(s-off %s)", b.T), fmt.Sprintf("(+ (s-off %s) %d)", b.T, n), guard, st)
	arr := fmt.Sprintf("(select %s (s-ref %s))", h, b.T)
	for i := 0; i < n; i++ {
		byteV := fmt.Sprintf("(mod (div %s %s) 256)", v.T, pow2(8*(n-1-i)))
		arr = fmt.Sprintf("(store %s (+ (s-off %s) %d) %s)", arr, b.T, i, byteV)
	}
	e.setHeap(st, hn, hs, fmt.Sprintf("(store %s (s-ref %s) %s)", h, b.T, arr))
	return Val{T: "0"}
}
