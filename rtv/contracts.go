package main

// Contract file parser: reads //@ blocks from the verif-tagged contract file(s).

import (
	"bufio"
	"fmt"
	"os"
	"path/filepath"
	"regexp"
	"sort"
	"strconv"
	"strings"
)

type Clause struct {
	Kind  string // requires ensures invariant decreases modifies assert
	Label string
	View  string // "view:label": the clause belongs to one proof view of the function (see Enc.view)
	Props []string
	Text  string
	Expr  SExpr
	Exprs []SExpr // modifies: list
	Line  int
	File  string
	// Assumed: a postcondition given to callers but not checked against the body ("assumes": part of a stated model,
	// listed in the evidence as an assumption)
	Assumed bool
	// Checked: a postcondition of a trusted "checkcalls" contract that IS checked against the body ("proves")
	Checked bool
}

type LoopSpec struct {
	Frame      bool // assume the function's frame at the loop head (opt-in: costs quantified axioms)
	Invariants []*Clause
	Decreases  *Clause
	Unroll     int
}

type Contract struct {
	Kind        string // func, extern, iface, lemma
	Name        string // SSA-style name: getVarInt, (*Writer).add, os.Remove, record.key
	Params      []string
	Results     []string
	Props       []string
	Requires    []*Clause
	Ensures     []*Clause
	Modifies    []*Clause // nil = unspecified
	HasMod      bool
	Pure        bool // "pure": writes nothing
	NoPanic     bool
	NoPanicP    []string
	GhostParams []string                    // extern/func contracts: extra ghost parameters (witnesses) named in requires/ensures
	CallGhost   map[string]map[string]SExpr // "callee#ordinal" -> ghost param -> expression (in the caller's contract)
	Sets        []*SetClause                // ghost assignments performed at return ("sets G = e if c")
	Decreases   *Clause
	Loops       map[int]*LoopSpec
	Uses        []string // axioms/lemmas to include
	Trusted     bool     // contract assumed, body not verified (listed)
	CheckCalls  bool     // trusted, but callee preconditions inside the body are checked
	TrustCalls  bool     // checkcalls variant: the body is walked only for its "proves" clauses; callee preconditions are assumed
	Inline      bool     // always inline, never modular
	Frame       bool     // check stores against modifies (frame obligations)
	FrameP      []string
	Line        int
	File        string
}

type SetClause struct {
	Key   SExpr // non-nil: "sets G[key] = e"
	Ghost string
	Expr  SExpr
	Cond  SExpr // may be nil
	Text  string
}

type SpecFunc struct {
	Opaque bool // defined, but used through an uninterpreted symbol plus one definitional axiom
	Name   string
	Params []SVar
	Result string
	Body   SExpr // nil = opaque
	Text   string
}

type Axiom struct {
	Name   string
	Text   string
	Expr   SExpr
	Lemma  bool // proved against definitions (not assumed)
	Params []SVar
}

type GhostVar struct {
	Name string
	Type string // Go-ish type text: map[string]bool, int, []string, bool
}

type ContractSet struct {
	Funcs  map[string]*Contract
	Specs  map[string]*SpecFunc
	Axioms []*Axiom
	Ghosts map[string]*GhostVar
	Groups map[string][]string // ghostgroup NAME = members
	Order  []string
}

var reProps = regexp.MustCompile(`^\{([A-Z0-9, ]+)\}\s*`)
var reLabel = regexp.MustCompile(`^\[([A-Za-z0-9_.:\-]+)\]\s*`)

func loadContracts(dir string) (*ContractSet, error) {
	cs := &ContractSet{Funcs: map[string]*Contract{}, Specs: map[string]*SpecFunc{}, Ghosts: map[string]*GhostVar{}}
	files, _ := filepath.Glob(filepath.Join(dir, "verif_*.go"))
	sort.Strings(files)
	for _, f := range files {
		if err := cs.loadFile(f); err != nil {
			return nil, err
		}
	}
	return cs, nil
}

type rawLine struct {
	indent int
	text   string
	line   int
}

func (cs *ContractSet) loadFile(path string) error {
	fh, err := os.Open(path)
	if err != nil {
		return err
	}
	defer fh.Close()
	sc := bufio.NewScanner(fh)
	sc.Buffer(make([]byte, 1<<20), 1<<20)
	var lines []rawLine
	ln := 0
	for sc.Scan() {
		ln++
		t := sc.Text()
		tt := strings.TrimLeft(t, " \t")
		if !strings.HasPrefix(tt, "//@") {
			continue
		}
		body := tt[3:]
		if i := strings.Index(body, " //"); i >= 0 { // trailing comment
			body = body[:i]
		}
		trim := strings.TrimLeft(body, " \t")
		if trim == "" {
			continue
		}
		lines = append(lines, rawLine{len(body) - len(trim), strings.TrimRight(trim, " \t"), ln})
	}
	// join continuation lines: a line whose first word is not a keyword continues the previous one
	var joined []rawLine
	for _, l := range lines {
		if len(joined) > 0 && !startsWithKeyword(l.text) {
			joined[len(joined)-1].text += " " + l.text
			continue
		}
		joined = append(joined, l)
	}
	var cur *Contract
	for _, l := range joined {
		w, rest := splitWord(l.text)
		switch w {
		case "func", "extern", "iface", "lemmafn", "callback":
			c := &Contract{Kind: w, Name: strings.TrimSpace(rest), Loops: map[int]*LoopSpec{}, Line: l.line, File: path}
			if _, dup := cs.Funcs[c.Name]; dup {
				return fmt.Errorf("%s:%d: duplicate contract for %s", path, l.line, c.Name)
			}
			cs.Funcs[c.Name] = c
			cs.Order = append(cs.Order, c.Name)
			cur = c
		case "spec":
			sf, err := parseSpecFunc(rest)
			if err != nil {
				return fmt.Errorf("%s:%d: %v", path, l.line, err)
			}
			cs.Specs[sf.Name] = sf
			cur = nil
		case "axiom", "lemma":
			i := strings.Index(rest, ":")
			if i < 0 {
				return fmt.Errorf("%s:%d: axiom needs 'name: expr'", path, l.line)
			}
			e, err := parseSpec(rest[i+1:])
			if err != nil {
				return fmt.Errorf("%s:%d: %v", path, l.line, err)
			}
			cs.Axioms = append(cs.Axioms, &Axiom{Name: strings.TrimSpace(rest[:i]), Text: strings.TrimSpace(rest[i+1:]), Expr: e, Lemma: w == "lemma"})
			cur = nil
		case "ghostgroup":
			// ghostgroup NAME = a, b, c   (usable in modifies clauses that follow)
			kv := strings.SplitN(rest, "=", 2)
			if len(kv) != 2 {
				return fmt.Errorf("%s:%d: ghostgroup: want NAME = a, b, ...", path, l.line)
			}
			if cs.Groups == nil {
				cs.Groups = map[string][]string{}
			}
			var ms []string
			for _, m := range strings.Split(kv[1], ",") {
				if m = strings.TrimSpace(m); m != "" {
					ms = append(ms, m)
				}
			}
			cs.Groups[strings.TrimSpace(kv[0])] = ms
			cur = nil
		case "ghost":
			n, ty := splitWord(rest)
			cs.Ghosts[n] = &GhostVar{n, strings.TrimSpace(ty)}
			cur = nil
		default:
			if cur == nil {
				return fmt.Errorf("%s:%d: clause %q outside a contract block", path, l.line, w)
			}
			if err := cs.addClause(cur, w, rest, l.line, path); err != nil {
				return fmt.Errorf("%s:%d: %v", path, l.line, err)
			}
		}
	}
	return nil
}

var keywords = map[string]bool{"callback": true, "func": true, "extern": true, "iface": true, "lemmafn": true, "spec": true, "axiom": true, "lemma": true, "ghost": true, "ghostgroup": true,
	"requires": true, "ensures": true, "assumes": true, "proves": true, "modifies": true, "nopanic": true, "loop": true, "props": true, "results": true,
	"params": true, "use": true, "decreases": true, "ghostparams": true, "callsite": true, "sets": true, "trusted": true, "checkcalls": true, "provesonly": true, "pure": true, "inline": true, "frame": true}

func startsWithKeyword(s string) bool {
	w, _ := splitWord(s)
	if i := strings.IndexAny(w, "[{"); i >= 0 {
		w = w[:i]
	}
	return keywords[w]
}

func splitWord(s string) (string, string) {
	s = strings.TrimSpace(s)
	i := strings.IndexAny(s, " \t")
	if i < 0 {
		return s, ""
	}
	return s[:i], strings.TrimSpace(s[i+1:])
}

func parseSpecFunc(s string) (*SpecFunc, error) {
	// name(params) type [= body]
	i := strings.Index(s, "(")
	if i < 0 {
		return nil, fmt.Errorf("spec: missing (")
	}
	opaque := false
	if strings.HasPrefix(strings.TrimSpace(s), "opaque ") {
		opaque = true
		s = strings.TrimSpace(strings.TrimSpace(s)[7:])
		i = strings.Index(s, "(")
	}
	sf := &SpecFunc{Name: strings.TrimSpace(s[:i]), Text: s, Opaque: opaque}
	j := strings.Index(s, ")")
	ps := strings.TrimSpace(s[i+1 : j])
	if ps != "" {
		for _, p := range strings.Split(ps, ",") {
			n, ty := splitWord(p)
			sf.Params = append(sf.Params, SVar{n, ty})
		}
		// allow "a, b int" grouping
		for k := len(sf.Params) - 1; k >= 0; k-- {
			if sf.Params[k].Type == "" && k+1 < len(sf.Params) {
				sf.Params[k].Type = sf.Params[k+1].Type
			}
		}
	}
	rest := strings.TrimSpace(s[j+1:])
	if k := strings.Index(rest, "="); k >= 0 && !strings.HasPrefix(rest[k:], "==") {
		sf.Result = strings.TrimSpace(rest[:k])
		e, err := parseSpec(rest[k+1:])
		if err != nil {
			return nil, err
		}
		sf.Body = e
	} else {
		sf.Result = rest
	}
	return sf, nil
}

func (cs *ContractSet) addClause(c *Contract, w, rest string, line int, file string) error {
	label := ""
	var props []string
	// keyword may carry [label] directly attached: ensures[foo]
	if i := strings.Index(w, "["); i >= 0 {
		rest = w[i:] + " " + rest
		w = w[:i]
	}
	takeMeta := func() {
		for {
			if m := reLabel.FindStringSubmatch(rest); m != nil {
				label = m[1]
				rest = rest[len(m[0]):]
				continue
			}
			if m := reProps.FindStringSubmatch(rest); m != nil {
				for _, p := range strings.Split(m[1], ",") {
					props = append(props, strings.TrimSpace(p))
				}
				rest = rest[len(m[0]):]
				continue
			}
			break
		}
	}
	mk := func(kind string) (*Clause, error) {
		takeMeta()
		e, err := parseSpec(rest)
		if err != nil {
			return nil, err
		}
		view := ""
		if k := strings.Index(label, ":"); k > 0 {
			view = label[:k]
		}
		return &Clause{Kind: kind, Label: label, View: view, Props: props, Text: rest, Expr: e, Line: line, File: file}, nil
	}
	switch w {
	case "sets":
		// sets G = expr [if cond]
		kv := strings.SplitN(rest, "=", 2)
		if len(kv) != 2 {
			return fmt.Errorf("sets: want 'sets G = expr [if cond]'")
		}
		sc := &SetClause{Ghost: strings.TrimSpace(kv[0]), Text: rest}
		if k := strings.Index(sc.Ghost, "["); k > 0 && strings.HasSuffix(sc.Ghost, "]") {
			// sets G[key] = expr: one element of a ghost map
			ke, err := parseSpec(sc.Ghost[k+1 : len(sc.Ghost)-1])
			if err != nil {
				return err
			}
			sc.Key = ke
			sc.Ghost = sc.Ghost[:k]
		}
		rhs := kv[1]
		if k := strings.Index(rhs, " if "); k >= 0 {
			ce, err := parseSpec(rhs[k+4:])
			if err != nil {
				return err
			}
			sc.Cond = ce
			rhs = rhs[:k]
		}
		ee, err := parseSpec(rhs)
		if err != nil {
			return err
		}
		sc.Expr = ee
		c.Sets = append(c.Sets, sc)
		// the ghost variable belongs to the frame
		c.HasMod = true
		c.Modifies = append(c.Modifies, &Clause{Kind: "modifies", Text: sc.Ghost, Expr: SIdent{sc.Ghost}, Line: line, File: file})
	case "ghostparams":
		c.GhostParams = strings.Fields(strings.ReplaceAll(rest, ",", " "))
	case "callsite":
		// callsite CALLEE ORDINAL ghost a = e1; b = e2
		parts := strings.SplitN(rest, " ghost ", 2)
		if len(parts) != 2 {
			return fmt.Errorf("callsite: want 'callsite CALLEE N ghost a = e; b = e'")
		}
		hd := strings.Fields(parts[0])
		if len(hd) != 2 {
			return fmt.Errorf("callsite: want callee and ordinal")
		}
		key := hd[0] + "#" + hd[1]
		if c.CallGhost == nil {
			c.CallGhost = map[string]map[string]SExpr{}
		}
		m := map[string]SExpr{}
		for _, as := range strings.Split(parts[1], ";") {
			kv := strings.SplitN(as, "=", 2)
			if len(kv) != 2 {
				return fmt.Errorf("callsite: bad assignment %q", as)
			}
			e, err := parseSpec(kv[1])
			if err != nil {
				return err
			}
			m[strings.TrimSpace(kv[0])] = e
		}
		c.CallGhost[key] = m
	case "props":
		c.Props = strings.Fields(strings.ReplaceAll(rest, ",", " "))
	case "results":
		c.Results = strings.Fields(strings.ReplaceAll(rest, ",", " "))
	case "params":
		c.Params = strings.Fields(strings.ReplaceAll(rest, ",", " "))
	case "use":
		c.Uses = append(c.Uses, strings.Fields(strings.ReplaceAll(rest, ",", " "))...)
	case "trusted":
		c.Trusted = true
	case "checkcalls":
		// trusted contract, but the body is still walked: the preconditions of the functions it calls (and the loop
		// invariants needed for them) are obligations; its own postconditions and frame stay assumed
		c.Trusted = true
		c.CheckCalls = true
	case "provesonly":
		// trusted contract whose body is walked only for its "proves" clauses (and the loop invariants they need):
		// callee preconditions inside the body are assumed, its other postconditions and its frame stay assumed
		c.Trusted = true
		c.CheckCalls = true
		c.TrustCalls = true
	case "inline":
		c.Inline = true
	case "pure":
		c.Pure = true
		c.HasMod = true
	case "frame":
		takeMeta()
		c.Frame = true
		c.FrameP = props
	case "nopanic":
		takeMeta()
		c.NoPanic = true
		c.NoPanicP = props
	case "decreases":
		cl, err := mk("decreases")
		if err != nil {
			return err
		}
		c.Decreases = cl
	case "requires":
		cl, err := mk("requires")
		if err != nil {
			return err
		}
		c.Requires = append(c.Requires, cl)
	case "ensures":
		cl, err := mk("ensures")
		if err != nil {
			return err
		}
		c.Ensures = append(c.Ensures, cl)
	case "proves":
		cl, err := mk("ensures")
		if err != nil {
			return err
		}
		cl.Checked = true
		c.Ensures = append(c.Ensures, cl)
	case "assumes":
		cl, err := mk("ensures")
		if err != nil {
			return err
		}
		cl.Assumed = true
		c.Ensures = append(c.Ensures, cl)
	case "modifies":
		takeMeta()
		c.HasMod = true
		var parts []string
		for _, part := range splitTopLevel(rest, ',') {
			part = strings.TrimSpace(part)
			if g, ok := cs.Groups[part]; ok {
				parts = append(parts, g...) // a ghost group stands for its members
			} else {
				parts = append(parts, part)
			}
		}
		for _, part := range parts {
			part = strings.TrimSpace(part)
			if part == "" || part == "nothing" {
				continue
			}
			var cond SExpr
			if k := strings.Index(part, " if "); k >= 0 {
				ce, err := parseSpec(part[k+4:])
				if err != nil {
					return err
				}
				cond = ce
				part = strings.TrimSpace(part[:k])
			}
			e, err := parseSpec(strings.ReplaceAll(part, ".*", ".ALLFIELDS"))
			if err != nil {
				return err
			}
			cl := &Clause{Kind: "modifies", Text: part, Expr: e, Line: line, File: file}
			if cond != nil {
				cl.Exprs = []SExpr{cond}
			}
			c.Modifies = append(c.Modifies, cl)
		}
	case "loop":
		nS, r2 := splitWord(rest)
		n, err := strconv.Atoi(nS)
		if err != nil {
			return fmt.Errorf("loop ordinal: %v", err)
		}
		ls := c.Loops[n]
		if ls == nil {
			ls = &LoopSpec{}
			c.Loops[n] = ls
		}
		k, r3 := splitWord(r2)
		if i := strings.Index(k, "["); i >= 0 {
			r3 = k[i:] + " " + r3
			k = k[:i]
		}
		rest = r3
		switch k {
		case "invariant":
			cl, err := mk("invariant")
			if err != nil {
				return err
			}
			ls.Invariants = append(ls.Invariants, cl)
		case "decreases":
			cl, err := mk("decreases")
			if err != nil {
				return err
			}
			ls.Decreases = cl
		case "frame":
			ls.Frame = true
		case "unroll":
			ls.Unroll, _ = strconv.Atoi(strings.TrimSpace(rest))
		default:
			return fmt.Errorf("unknown loop clause %q", k)
		}
	default:
		return fmt.Errorf("unknown clause keyword %q", w)
	}
	return nil
}

func splitTopLevel(s string, sep byte) []string {
	var out []string
	depth := 0
	last := 0
	for i := 0; i < len(s); i++ {
		switch s[i] {
		case '(', '[':
			depth++
		case ')', ']':
			depth--
		default:
			if s[i] == sep && depth == 0 {
				out = append(out, s[last:i])
				last = i + 1
			}
		}
	}
	out = append(out, s[last:])
	return out
}

func clauseName(c *Clause) string {
	if c.Label != "" {
		return c.Label
	}
	t := strings.Join(strings.Fields(c.Text), "")
	if len(t) > 60 {
		t = t[:60]
	}
	return t
}

// views lists the proof views of a contract: "" (clauses without a view) first, then the named views.
func (c *Contract) views() []string {
	seen := map[string]bool{"": true}
	out := []string{""}
	add := func(cl *Clause) {
		if cl != nil && !seen[cl.View] {
			seen[cl.View] = true
			out = append(out, cl.View)
		}
	}
	for _, cl := range c.Ensures {
		if !cl.Assumed {
			add(cl)
		}
	}
	for _, ls := range c.Loops {
		for _, cl := range ls.Invariants {
			add(cl)
		}
	}
	sort.Strings(out[1:])
	return out
}
