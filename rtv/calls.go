package main

// Calls: builtins, modular (contract) calls, inlining, interface dispatch, extern models.

import (
	"regexp"
	"fmt"
	"go/types"
	"sort"
	"strings"

	"golang.org/x/tools/go/ssa"
)

const maxInlineDepth = 6

func (f *Frame) call(in ssa.Instruction, c *ssa.CallCommon, guard string, st *State) Val {
	var args []Val
	for _, a := range c.Args {
		args = append(args, f.val(a))
	}
	fv := f.val(c.Value)
	return f.callCommon(in, c, guard, st, args, fv, false)
}

func resultType(c *ssa.CallCommon) types.Type {
	sig := c.Signature()
	switch sig.Results().Len() {
	case 0:
		return nil
	case 1:
		return sig.Results().At(0).Type()
	}
	return sig.Results()
}

func (f *Frame) callCommon(in ssa.Instruction, c *ssa.CallCommon, guard string, st *State, args []Val, fv Val, deferred bool) Val {
	e := f.e
	rt := resultType(c)
	if c.IsInvoke() {
		return f.invoke(in, c, guard, st, args, fv, rt)
	}
	switch callee := c.Value.(type) {
	case *ssa.Builtin:
		return f.builtin(in, callee, c, guard, st, args, rt)
	case *ssa.Function:
		return f.callFunc(in, callee, nil, guard, st, args, rt)
	case *ssa.MakeClosure:
		clo := fv.Clo
		if clo == nil {
			var bs []Val
			for _, b := range callee.Bindings {
				bs = append(bs, f.val(b))
			}
			clo = &Closure{Fn: callee.Fn.(*ssa.Function), Bindings: bs}
		}
		return f.callFunc(in, clo.Fn, clo.Bindings, guard, st, args, rt)
	}
	if fv.Clo != nil {
		return f.callFunc(in, fv.Clo.Fn, fv.Clo.Bindings, guard, st, args, rt)
	}
	// a function-typed parameter with a callback contract "F#param" (trusted; listed as an assumption)
	if prm, ok := c.Value.(*ssa.Parameter); ok {
		if ct := e.P.CS.Funcs[e.P.fnName(f.fn)+"#"+prm.Name()]; ct != nil {
			return f.callContract(in, ct, nil, guard, st, args, rt, nil)
		}
	}
	// unknown function value: havoc everything
	e.note(fmt.Sprintf("%s calls an unknown function value (%s): all heaps havocked, result unconstrained", e.P.fnName(f.fn), c.Value.Name()))
	f.havocAll(st)
	return f.freshResult("dyn", rt, st)
}

func (f *Frame) havocAll(st *State) {
	e := f.e
	na := e.fresh("alloc_x", sInt)
	e.assert(fmt.Sprintf("(and (>= %s %s) (< %s %s))", na, st.alloc, na, pow2(embBase-1)))
	st.alloc = na
	for _, h := range sortedKeys(e.heapSort) {
		if strings.HasPrefix(h, "ghost_") {
			continue
		}
		st.heaps[h] = e.freshHeap("hx_", h, e.heapSort[h], na)
	}
}

func (f *Frame) freshResult(hint string, rt types.Type, st *State) Val {
	if rt == nil {
		return Val{T: "0"}
	}
	v := f.freshVal("res_"+hint, rt)
	f.assumeWf(v, rt, st.alloc)
	return v
}

func (f *Frame) assumeWf(v Val, t types.Type, alloc string) {
	if v.Tuple != nil {
		tup := t.(*types.Tuple)
		for i := range v.Tuple {
			f.assumeWf(v.Tuple[i], tup.At(i).Type(), alloc)
		}
		return
	}
	f.e.assert(f.e.wfVal(v.T, t, alloc))
}

func onStack(f *Frame, fn *ssa.Function) bool {
	for p := f; p != nil; p = p.parent {
		if p.fn == fn {
			return true
		}
	}
	return false
}

func (f *Frame) callFunc(in ssa.Instruction, callee *ssa.Function, bindings []Val, guard string, st *State, args []Val, rt types.Type) Val {
	e := f.e
	name := e.P.fnName(callee)
	if callee.Pkg == e.P.Pkg {
		if v, ok := f.harnessCall(in, callee, guard, args); ok {
			return v
		}
	}
	if m, ok := externModels[name]; ok {
		return m(f, in, guard, st, args, rt)
	}
	ct := e.P.CS.Funcs[name]
	if ct != nil && !ct.Inline {
		return f.callContract(in, ct, callee, guard, st, args, rt, nil)
	}
	if callee.Blocks == nil || (callee.Pkg != e.P.Pkg && !(callee.Parent() != nil && callee.Parent().Pkg == e.P.Pkg)) {
		return f.externDefault(in, callee, guard, st, args, rt)
	}
	if f.depth >= maxInlineDepth || onStack(f, callee) {
		e.note(fmt.Sprintf("call to %s not inlined (depth/recursion) and has no contract: heaps it may write are havocked", name))
		f.havocWrites(callee, st)
		return f.freshResult(callee.Name(), rt, st)
	}
	// loops without specs prevent inlining
	sub := e.newFrame(callee, f)
	for _, li := range sub.loops {
		if sub.loopSpec(li) == nil {
			e.note(fmt.Sprintf("call to %s: callee has a loop without invariant and no contract: heaps it may write are havocked", name))
			f.havocWrites(callee, st)
			return f.freshResult(callee.Name(), rt, st)
		}
	}
	for i, fvv := range callee.FreeVars {
		if i < len(bindings) {
			sub.freeVars[fvv] = bindings[i]
		}
	}
	results, exit, retGuard := sub.run(guard, st, args)
	if exit != nil {
		// the continuation only runs if the callee returns (partial correctness): past a loop cut point this is what
		// makes the loop's exit condition available to the caller
		e.assume(guard, retGuard)
	}
	if exit == nil {
		// callee never returns normally on any path
		e.assume(guard, "false")
		return f.freshResult(callee.Name(), rt, st)
	}
	*st = *exit.clone()
	switch len(results) {
	case 0:
		return Val{T: "0"}
	case 1:
		return results[0]
	}
	return Val{Tuple: results, Typ: rt}
}

func (f *Frame) havocWrites(callee *ssa.Function, st *State) {
	e := f.e
	w := e.P.staticWrites(e, callee)
	if w["*"] {
		f.havocAll(st)
		return
	}
	na := e.fresh("alloc_x", sInt)
	e.assert(fmt.Sprintf("(and (>= %s %s) (< %s %s))", na, st.alloc, na, pow2(embBase-1)))
	st.alloc = na
	for _, h := range sortedKeys(w) {
		if sortS, ok := e.heapSort[h]; ok {
			st.heaps[h] = e.freshHeap("hx_", h, sortS, na)
		}
	}
}

func (f *Frame) externDefault(in ssa.Instruction, callee *ssa.Function, guard string, st *State, args []Val, rt types.Type) Val {
	e := f.e
	name := e.P.fnName(callee)
	switch {
	case name == "log.Panicf" || name == "log.Panic" || name == "log.Panicln" || strings.HasPrefix(name, "log.Fatal"):
		f.explicitPanic(in, guard, name)
		return Val{T: "0"}
	case strings.HasPrefix(name, "fmt.Errorf") || name == "errors.New":
		r := e.newRef(st, "err")
		return Val{T: fmt.Sprintf("(mk-iface 2 %s)", r), Typ: rt}
	}
	e.note(fmt.Sprintf("extern %s has no contract: result unconstrained, no heap effect assumed", name))
	r := f.freshResult(sanitize(name), rt, st)
	f.notPkgErr(r, guard)
	return r
}

func (f *Frame) notErrsOf(v Val, guard string, excluded func(g string) bool) {
	if len(v.Tuple) > 0 {
		for _, c := range v.Tuple {
			f.notErrsOf(c, guard, excluded)
		}
		return
	}
	if v.Typ == nil || !isErrType(v.Typ) {
		return
	}
	for _, n := range f.e.P.ErrGlobals {
		if excluded(n) {
			f.e.assume(guard, not(eq(v.T, "errG_"+sanitize(n))))
		}
	}
}

// notPkgErr: a function outside the package cannot return one of the package's own error values.
func (f *Frame) notPkgErr(v Val, guard string) {
	if len(v.Tuple) > 0 {
		for _, c := range v.Tuple {
			f.notPkgErr(c, guard)
		}
		return
	}
	if v.Typ == nil || !isErrType(v.Typ) {
		return
	}
	for _, n := range f.e.P.ErrGlobals {
		f.e.assume(guard, not(eq(v.T, "errG_"+sanitize(n))))
	}
}

// ---------- modular call ----------

type boundNames struct {
	names map[string]Val
}

func (f *Frame) callContract(in ssa.Instruction, ct *Contract, callee *ssa.Function, guard string, st *State, args []Val, rt types.Type, self *Val) Val {
	e := f.e
	bind := map[string]Val{}
	if callee != nil && callee.Signature != nil {
		i := 0
		if callee.Signature.Recv() != nil && len(callee.Params) > 0 {
			// params include receiver
		}
		for _, p := range callee.Params {
			if i < len(args) {
				a := args[i]
				if a.Typ == nil {
					a.Typ = p.Type()
				}
				bind[p.Name()] = a
			}
			i++
		}
	}
	if len(ct.Params) > 0 {
		off := 0
		if self != nil {
			off = 0
		}
		for i, n := range ct.Params {
			if i+off < len(args) {
				a := args[i+off]
				bind[n] = a
			}
		}
	}
	if self != nil {
		bind["self"] = *self
	}
	// ghost (witness) parameters: values come from the caller's contract (callsite clause), default 0
	if len(ct.GhostParams) > 0 {
		var given map[string]SExpr
		if f.parent == nil && f.contract != nil && f.contract.CallGhost != nil {
			given = f.contract.CallGhost[fmt.Sprintf("%s#%d", ct.Name, f.callOrdinal(in, ct.Name))]
		}
		for _, g := range ct.GhostParams {
			if ex, ok := given[g]; ok {
				v := f.specTerm(ex, &specEnv{f: f, st: st, old: f.entry, block: in.Block()})
				bind[g] = v
			} else {
				bind[g] = Val{T: "0", Typ: mathInt}
			}
		}
	}
	fname := e.P.fnName(f.fn)
	old := st.clone()
	env := &specEnv{f: f, st: st, old: old, names: bind, callSite: true}
	if callee != nil && callee == f.topFrame().fn && ct.Decreases != nil {
		// recursive call: the measure must strictly decrease and be bounded below
		top := f.topFrame()
		m0 := top.specTerm(ct.Decreases.Expr, &specEnv{f: top, st: top.entry, old: top.entry})
		m1 := f.specTerm(ct.Decreases.Expr, env)
		e.oblige("loop-decreases", fmt.Sprintf("%s:recursion:decreases", fname), ct.Props, guard, fmt.Sprintf("(and (>= %s 0) (< %s %s))", m0.T, m1.T, m0.T), f.pos(in.Pos()), ct.Decreases.Text)
	} else if callee != nil && callee == f.topFrame().fn {
		e.oblige("loop-decreases", fmt.Sprintf("%s:recursion:decreases", fname), ct.Props, guard, "false", f.pos(in.Pos()), "recursive function without a decreases clause")
	}
	for _, rq := range ct.Requires {
		t := f.specBool(rq.Expr, env)
		props := rq.Props
		if len(props) == 0 {
			props = ct.Props
		}
		if f.contract != nil && len(f.contract.Props) > 0 && len(rq.Props) == 0 {
			props = unionProps(props, f.contract.Props)
		}
		if tc := f.topFrame().contract; e.primary() && !(tc != nil && tc.TrustCalls) {
			nm := fmt.Sprintf("%s:call:%s:requires:%s", fname, ct.Name, clauseName(rq))
			if f.parent != nil {
				// inlined (e.g. deferred closure): name the site of the top-level function it runs at
				nm = fmt.Sprintf("%s@b%d", nm, e.curBlock)
				if len(props) == 0 && f.topFrame().contract != nil {
					props = f.topFrame().contract.Props
				}
			}
			e.oblige("call-requires", nm, props, guard, t, f.pos(in.Pos()), rq.Text)
		} else {
			e.assume(guard, t)
		}
	}
	// frame: callee's modifies must be allowed by ours
	f.frameCheckCall(in, ct, callee, env, guard, st)
	// havoc
	f.applyModifies(ct, callee, env, st, old)
	// results
	var res Val
	if rt != nil {
		res = f.freshResult(sanitize(ct.Name), rt, st)
		if res.Tuple != nil {
			for i, v := range res.Tuple {
				bind[fmt.Sprintf("result%d", i)] = v
				if i < len(ct.Results) {
					bind[ct.Results[i]] = v
				}
			}
			if callee != nil {
				for i := 0; i < callee.Signature.Results().Len() && i < len(res.Tuple); i++ {
					if n := callee.Signature.Results().At(i).Name(); n != "" && n != "_" {
						if _, dup := bind[n]; !dup {
							bind[n] = res.Tuple[i]
						}
					}
				}
			}
		} else {
			bind["result"] = res
			bind["result0"] = res
			if len(ct.Results) > 0 {
				bind[ct.Results[0]] = res
			}
			if callee != nil && callee.Signature.Results().Len() == 1 {
				if n := callee.Signature.Results().At(0).Name(); n != "" && n != "_" {
					if _, dup := bind[n]; !dup {
						bind[n] = res
					}
				}
			}
		}
	} else {
		res = Val{T: "0"}
	}
	if callee != nil && callee.Pkg != e.P.Pkg && !(callee.Parent() != nil && callee.Parent().Pkg == e.P.Pkg) {
		f.notPkgErr(res, guard)
	} else if callee != nil {
		// provenance: a callee that neither mentions a package error value nor can reach code that does cannot return it
		f.notErrsOf(res, guard, func(g string) bool { return !e.P.mayReturnErr(callee, g) })
	}
	env2 := &specEnv{f: f, st: st, old: old, names: bind, callSite: true}
	// ghost assignments of the callee at its return: performed in order on the state at return, in which the assigned
	// ghosts still have their values from before the call (so "sets n = n + 1" counts)
	if len(ct.Sets) > 0 {
		tmp := st.clone()
		final := map[string]string{}
		for _, sc := range ct.Sets {
			sortS := e.P.ghostSort(sc.Ghost)
			if _, seen := final[sc.Ghost]; !seen {
				final[sc.Ghost] = e.getHeap(st, "ghost_"+sc.Ghost, sortS)
				tmp.heaps["ghost_"+sc.Ghost] = e.getHeap(old, "ghost_"+sc.Ghost, sortS)
			}
		}
		envT := &specEnv{f: f, st: tmp, old: old, names: bind, callSite: true}
		for _, sc := range ct.Sets {
			sortS := e.P.ghostSort(sc.Ghost)
			nv := f.specTerm(sc.Expr, envT)
			prev := e.getHeap(tmp, "ghost_"+sc.Ghost, sortS)
			if sc.Key != nil {
				// the key is evaluated in the state at return (it may name a result); ghosts still have their earlier values
				nv.T = fmt.Sprintf("(store %s %s %s)", prev, f.specTerm(sc.Key, envT).T, nv.T)
			}
			val := nv.T
			if sc.Cond != nil {
				val = ite(f.specBool(sc.Cond, envT), nv.T, prev)
			}
			tmp.heaps["ghost_"+sc.Ghost] = e.define("gs_"+sc.Ghost, sortS, val)
		}
		for g, cur := range final {
			e.assume(guard, eq(cur, tmp.heaps["ghost_"+g]))
		}
	}
	for _, en := range ct.Ensures {
		t := f.specBool(en.Expr, env2)
		e.assume(guard, t)
	}
	f.useLemmas(guard, st)
	return res
}

func unionProps(a, b []string) []string {
	m := map[string]bool{}
	var out []string
	for _, x := range append(append([]string{}, a...), b...) {
		if !m[x] {
			m[x] = true
			out = append(out, x)
		}
	}
	return out
}

// applyModifies havocs what the contract allows the callee to write.
func (f *Frame) applyModifies(ct *Contract, callee *ssa.Function, env *specEnv, st, old *State) {
	e := f.e
	allocBefore := st.alloc
	w := map[string]bool{}
	if callee != nil && callee.Blocks != nil {
		for k, v := range e.P.staticWrites(e, callee) {
			w[k] = v
		}
	}
	if !ct.HasMod {
		// unspecified frame: everything the body may write is havocked
		if callee != nil && callee.Blocks != nil {
			f.havocWrites(callee, st)
		}
		return
	}
	// collect targets per heap
	type target struct {
		ref    string
		lo, hi string // for element regions ("" = whole object)
		cond   string // "" = unconditional
		all    bool
	}
	targets := map[string][]target{}
	envOld := &specEnv{f: env.f, st: old, old: old, names: env.names, callSite: true}
	for _, m := range ct.Modifies {
		cond := ""
		if len(m.Exprs) > 0 {
			cond = f.specBool(m.Exprs[0], envOld)
		}
		for _, mt := range f.modTargets(m.Expr, envOld) {
			tc := cond
			if mt.cond != "" {
				tc = and(cond, mt.cond)
			}
			targets[mt.heap] = append(targets[mt.heap], target{ref: mt.ref, lo: mt.lo, hi: mt.hi, cond: tc, all: mt.all})
			w[mt.heap] = true
			if _, ok := e.heapSort[mt.heap]; !ok {
				e.heapSort[mt.heap] = mt.sort
			}
		}
	}
	// "*" (a call through an unknown function value somewhere below) is covered by the callee's own frame check
	// against its modifies clause (callback contracts): only what the clause names, plus fresh memory, changes
	delete(w, "*")
	na := e.fresh("alloc_c", sInt)
	e.assert(fmt.Sprintf("(and (>= %s %s) (< %s %s))", na, st.alloc, na, pow2(embBase-1)))
	for _, h := range sortedKeys(w) {
		sortS, ok := e.heapSort[h]
		if !ok {
			continue
		}
		ts := targets[h]
		if (strings.HasPrefix(h, "ghost_") || strings.HasPrefix(h, "G_")) && len(ts) == 0 {
			continue // ghost state and globals change only if the modifies clause names them (checked for verified callees)
		}
		before := e.getHeap(st, h, sortS)
		after := e.freshHeap("hc_", h, sortS, na)
		st.heaps[h] = after
		if strings.HasPrefix(h, "ghost_") || strings.HasPrefix(h, "G_") {
			continue // whole variable havocked
		}
		if !strings.HasPrefix(sortS, "(Array Int") {
			continue
		}
		wild := false
		var embExcl []string
		for _, t := range ts {
			if t.all {
				// anyof(*T): a field of a struct embedded in T lives at refs that carry T's embedding bit(s); the same field
				// heap also holds that struct embedded elsewhere (Config in Writer and in Stack): those are not written
				bits := embBitsOf(t.ref)
				if len(bits) == 0 {
					wild = true
					continue
				}
				var has []string
				for _, b := range bits {
					has = append(has, fmt.Sprintf("(= (mod (div r %s) 2) 1)", b))
				}
				embExcl = append(embExcl, not(and(has...)))
			}
		}
		if wild {
			continue // the whole heap is havocked
		}
		var excl []string
		excl = append(excl, embExcl...)
		for _, t := range ts {
			if t.all {
				continue
			}
			if t.cond != "" {
				excl = append(excl, not(and(t.cond, fmt.Sprintf("(= r %s)", t.ref))))
			} else {
				excl = append(excl, fmt.Sprintf("(not (= r %s))", t.ref))
			}
		}
		e.assert(fmt.Sprintf("(forall ((r Int)) (! (=> %s (= (select %s r) (select %s r))) :pattern ((select %s r))))",
			and(append([]string{fmt.Sprintf("(<= (base r) %s)", allocBefore)}, excl...)...), after, before, after))
		// element regions
		for _, t := range ts {
			if t.lo != "" {
				// other modified regions of the same object
				var outside []string
				for _, u := range ts {
					if u.ref == t.ref && u.lo != "" {
						outside = append(outside, fmt.Sprintf("(or (< k %s) (>= k %s))", u.lo, u.hi))
					} else if u.ref == t.ref {
						outside = append(outside, "false")
					}
				}
				e.assert(fmt.Sprintf("(forall ((k Int)) (! (=> %s (= (select (select %s %s) k) (select (select %s %s) k))) :pattern ((select (select %s %s) k))))",
					and(outside...), after, t.ref, before, t.ref, after, t.ref))
			}
		}
	}
	st.alloc = na
}

type modTarget struct {
	heap, sort string
	ref        string
	lo, hi     string
	all        bool   // every object of the type (anyof(*T)): the whole heap
	cond       string // the target is only written under this condition (e.g. the dynamic type of an interface value)
}

// modTargets resolves a modifies expression into heap targets (evaluated in env).
func (f *Frame) modTargets(x SExpr, env *specEnv) []modTarget {
	e := f.e
	switch m := x.(type) {
	case SIdent:
		if _, ok := e.P.CS.Ghosts[m.Name]; ok {
			return []modTarget{{heap: "ghost_" + m.Name, sort: e.P.ghostSort(m.Name)}}
		}
		// a pointer variable: whole pointee
		v := f.specTerm(m, env)
		return f.wholeObject(v)
	case SSel:
		base := f.specTerm(m.X, env)
		if m.Sel == "ALLFIELDS" {
			return f.wholeObject(base)
		}
		pt, ok := base.Typ.Underlying().(*types.Pointer)
		if !ok {
			e.errorf("modifies %v: base is not a pointer", x)
			return nil
		}
		s, ok := isStruct(pt.Elem())
		if !ok {
			return nil
		}
		name := e.tt().structName(pt.Elem())
		for i := 0; i < s.NumFields(); i++ {
			if s.Field(i).Name() == m.Sel {
				ft := s.Field(i).Type()
				if _, isS := isStruct(ft); isS {
					return f.wholeObject(Val{T: e.embRef(base.T, name, i), Typ: types.NewPointer(ft)})
				}
				hn, hs := e.fieldHeap(name, i, ft)
				return []modTarget{{heap: hn, sort: hs, ref: base.T}}
			}
		}
		e.errorf("modifies: no field %s", m.Sel)
	case SSlice:
		base := f.specTerm(m.X, env)
		sl, ok := base.Typ.Underlying().(*types.Slice)
		if !ok {
			e.errorf("modifies: not a slice")
			return nil
		}
		hn, hs := e.elemHeap(sl.Elem())
		lo := "0"
		hi := fmt.Sprintf("(s-len %s)", base.T)
		if m.Lo != nil {
			lo = f.specTerm(m.Lo, env).T
		}
		if m.Hi != nil {
			hi = f.specTerm(m.Hi, env).T
		}
		return []modTarget{{heap: hn, sort: hs, ref: fmt.Sprintf("(s-ref %s)", base.T),
			lo: fmt.Sprintf("(+ (s-off %s) %s)", base.T, lo), hi: fmt.Sprintf("(+ (s-off %s) %s)", base.T, hi)}}
	case SIndex:
		return f.modTargets(SSlice{m.X, m.I, SBin{"+", m.I, SInt{"1"}}}, env)
	case SCall:
		if m.Fn == "anyof" && len(m.Args) == 1 {
			// anyof(*T): every field of every object of type T
			if ty, ok := m.Args[0].(SType); ok {
				gt := f.resolveType(ty.Text)
				if pt, ok := gt.(*types.Pointer); ok {
					var out []modTarget
					for _, t := range f.structTargets("0", pt.Elem()) {
						t.all = true
						out = append(out, t)
					}
					return out
				}
			}
			if ty, ok := m.Args[0].(SType); ok {
				if st, ok := f.resolveType(ty.Text).(*types.Slice); ok {
					// anyof([]T): every element of every slice of T (the whole element heap)
					hn, hs := e.elemHeap(st.Elem())
					return []modTarget{{heap: hn, sort: hs, all: true}}
				}
			}
			e.errorf("anyof needs a pointer-to-struct or slice type")
			return nil
		}
		return f.wholeObject(f.specTerm(m, env))
	}
	e.errorf("unsupported modifies expression %#v", x)
	return nil
}

func (f *Frame) wholeObject(v Val) []modTarget {
	e := f.e
	if v.Typ == nil {
		return nil
	}
	switch t := v.Typ.Underlying().(type) {
	case *types.Pointer:
		if _, ok := isStruct(t.Elem()); ok {
			return f.structTargets(v.T, t.Elem())
		}
		if at, ok := isArray(t.Elem()); ok {
			hn, hs := e.elemHeap(at.Elem())
			return []modTarget{{heap: hn, sort: hs, ref: v.T}}
		}
		hn, hs := e.cellHeap(t.Elem())
		return []modTarget{{heap: hn, sort: hs, ref: v.T}}
	case *types.Slice:
		hn, hs := e.elemHeap(t.Elem())
		return []modTarget{{heap: hn, sort: hs, ref: fmt.Sprintf("(s-ref %s)", v.T),
			lo: fmt.Sprintf("(s-off %s)", v.T), hi: fmt.Sprintf("(+ (s-off %s) (s-len %s))", v.T, v.T)}}
	case *types.Interface:
		// the object held by the interface: any implementing pointer type of the package (closed world)
		var out []modTarget
		for _, T := range e.P.implementingTypes(v.Typ) {
			if pt, ok := T.Underlying().(*types.Pointer); ok {
				if _, isS := isStruct(pt.Elem()); isS {
					c := fmt.Sprintf("(= (i-tag %s) %d)", v.T, e.tt().tagOf(T))
					for _, t := range f.structTargets(fmt.Sprintf("(i-ref %s)", v.T), pt.Elem()) {
						t.cond = c
						out = append(out, t)
					}
				}
			}
		}
		return out
	}
	return nil
}

func (f *Frame) structTargets(ref string, t types.Type) []modTarget {
	e := f.e
	s, _ := isStruct(t)
	name := e.tt().structName(t)
	var out []modTarget
	for i := 0; i < s.NumFields(); i++ {
		ft := s.Field(i).Type()
		if _, ok := isStruct(ft); ok {
			out = append(out, f.structTargets(e.embRef(ref, name, i), ft)...)
		} else {
			hn, hs := e.fieldHeap(name, i, ft)
			out = append(out, modTarget{heap: hn, sort: hs, ref: ref})
		}
	}
	return out
}

func (p *Program) ghostSort(name string) string {
	g := p.CS.Ghosts[name]
	if g == nil {
		return sInt
	}
	return ghostTypeSort(g.Type)
}

func ghostTypeSort(t string) string {
	t = strings.TrimSpace(t)
	switch {
	case t == "int" || t == "uint64":
		return sInt
	case t == "bool":
		return sBool
	case t == "string":
		return sStr
	case strings.HasPrefix(t, "map["):
		i := strings.Index(t, "]")
		return fmt.Sprintf("(Array %s %s)", ghostTypeSort(t[4:i]), ghostTypeSort(t[i+1:]))
	case strings.HasPrefix(t, "seq["): // seq[T]: (Array Int T) + separate length ghost
		return fmt.Sprintf("(Array Int %s)", ghostTypeSort(t[4:len(t)-1]))
	}
	return sInt
}

// ---------- interface method calls ----------

func (f *Frame) invoke(in ssa.Instruction, c *ssa.CallCommon, guard string, st *State, args []Val, recv Val, rt types.Type) Val {
	e := f.e
	iname := e.P.ifaceMethodName(c)
	f.rtCheck("nil", in, guard, fmt.Sprintf("(not (= (i-tag %s) 0))", recv.T), "invoke:"+iname)
	if ct := e.P.CS.Funcs[iname]; ct != nil {
		self := recv
		self.Typ = c.Value.Type()
		// bind contract params to args positionally
		return f.callContract(in, ct, nil, guard, st, args, rt, &self)
	}
	impls := e.P.implementers(c.Value.Type(), c.Method)
	if len(impls) == 0 || len(impls) > 8 {
		e.note(fmt.Sprintf("interface call %s has no contract: result unconstrained; heaps written by known implementations havocked", iname))
		for _, im := range impls {
			f.havocWrites(im, st)
		}
		return f.freshResult(sanitize(iname), rt, st)
	}
	// closed-world dispatch over the implementations in the package (exported interfaces: noted as assumption)
	if obj := c.Method; obj.Exported() {
		if named, ok := c.Value.Type().(*types.Named); ok && named.Obj().Exported() {
			e.note(fmt.Sprintf("interface call %s dispatched over the implementations in this package only (closed world)", iname))
		}
	}
	var results []Val
	var guards []string
	var states []*State
	for _, im := range impls {
		recvT := im.Signature.Recv().Type()
		tag := e.tt().tagOf(recvT)
		g := e.define(f.prefix+"_disp", sBool, and(guard, fmt.Sprintf("(= (i-tag %s) %d)", recv.T, tag)))
		var rv Val
		if _, isPtr := recvT.Underlying().(*types.Pointer); isPtr {
			rv = Val{T: fmt.Sprintf("(i-ref %s)", recv.T), Typ: recvT}
		} else {
			hn, hs := e.cellHeap(recvT)
			rv = Val{T: fmt.Sprintf("(select %s (i-ref %s))", e.getHeap(st, hn, hs), recv.T), Typ: recvT}
		}
		sub := st.clone()
		r := f.callFunc(in, im, nil, g, sub, append([]Val{rv}, args...), rt)
		results = append(results, r)
		guards = append(guards, g)
		states = append(states, sub)
	}
	// any other dynamic type: unconstrained
	other := e.define(f.prefix+"_dispo", sBool, and(guard, not(or(guards...))))
	osub := st.clone()
	or_ := f.freshResult(sanitize(iname), rt, osub)
	for _, im := range impls {
		_ = im
	}
	results = append(results, or_)
	guards = append(guards, other)
	states = append(states, osub)
	ms := f.mergeStates(func(k int) (string, *State) { return guards[k], states[k] }, len(states), "disp")
	*st = *ms
	if rt == nil {
		return Val{T: "0"}
	}
	return f.mergeResultVals(results, guards, rt)
}

func (f *Frame) mergeResultVals(results []Val, guards []string, rt types.Type) Val {
	e := f.e
	if tup, ok := rt.(*types.Tuple); ok {
		var vs []Val
		for i := 0; i < tup.Len(); i++ {
			var col []Val
			for _, r := range results {
				col = append(col, r.Tuple[i])
			}
			vs = append(vs, f.mergeResultVals(col, guards, tup.At(i).Type()))
		}
		return Val{Tuple: vs, Typ: rt}
	}
	n := e.fresh(f.prefix+"_dres", e.tt().sortOf(rt))
	for i, r := range results {
		e.assume(guards[i], eq(n, r.T))
	}
	return Val{T: n, Typ: rt}
}

// ---------- builtins ----------

func (f *Frame) builtin(in ssa.Instruction, b *ssa.Builtin, c *ssa.CallCommon, guard string, st *State, args []Val, rt types.Type) Val {
	e := f.e
	switch b.Name() {
	case "len":
		a := args[0]
		switch t := c.Args[0].Type().Underlying().(type) {
		case *types.Slice:
			return Val{T: fmt.Sprintf("(s-len %s)", a.T), Typ: rt}
		case *types.Basic:
			return Val{T: fmt.Sprintf("(slen %s)", a.T), Typ: rt}
		case *types.Array:
			return Val{T: fmt.Sprint(t.Len()), Typ: rt}
		case *types.Pointer:
			return Val{T: fmt.Sprint(t.Elem().Underlying().(*types.Array).Len()), Typ: rt}
		case *types.Map:
			n, _, _ := f.mapHeap(t)
			ln := e.getHeap(st, n+"_n", "(Array Int Int)")
			v := Val{T: e.define("maplen", "Int", fmt.Sprintf("(select %s %s)", ln, a.T)), Typ: rt}
			e.assert(fmt.Sprintf("(>= %s 0)", v.T))
			return v
		}
	case "cap":
		a := args[0]
		if _, ok := c.Args[0].Type().Underlying().(*types.Slice); ok {
			return Val{T: fmt.Sprintf("(s-cap %s)", a.T), Typ: rt}
		}
	case "copy":
		return f.builtinCopy(in, c, guard, st, args, rt)
	case "append":
		return f.builtinAppend(in, c, guard, st, args, rt)
	case "delete":
		mt := c.Args[0].Type().Underlying().(*types.Map)
		n, _, psort := f.mapHeap(mt)
		pres := e.getHeap(st, n+"_p", psort)
		e.setHeap(st, n+"_p", psort, fmt.Sprintf("(store %s %s (store (select %s %s) %s false))", pres, args[0].T, pres, args[0].T, args[1].T))
		ln := e.getHeap(st, n+"_n", "(Array Int Int)")
		e.setHeap(st, n+"_n", "(Array Int Int)", fmt.Sprintf("(store %s %s (ite (select (select %s %s) %s) (- (select %s %s) 1) (select %s %s)))", ln, args[0].T, pres, args[0].T, args[1].T, ln, args[0].T, ln, args[0].T))
		return Val{T: "0"}
	case "panic":
		f.explicitPanic(in, guard, "builtin")
		return Val{T: "0"}
	case "print", "println":
		return Val{T: "0"}
	}
	e.errorf("builtin %s unsupported", b.Name())
	return f.freshResult(b.Name(), rt, st)
}

func (f *Frame) builtinCopy(in ssa.Instruction, c *ssa.CallCommon, guard string, st *State, args []Val, rt types.Type) Val {
	e := f.e
	dst, src := args[0], args[1]
	dt := c.Args[0].Type().Underlying().(*types.Slice)
	hn, hs := e.elemHeap(dt.Elem())
	var srcLen string
	var srcAt func(k string) string
	if isString(c.Args[1].Type()) {
		srcLen = fmt.Sprintf("(slen %s)", src.T)
		srcAt = func(k string) string { return fmt.Sprintf("(sat %s %s)", src.T, k) }
	} else {
		srcLen = fmt.Sprintf("(s-len %s)", src.T)
		h := e.getHeap(st, hn, hs)
		sarr := e.define("cp_src", "(Array Int "+e.tt().sortOf(dt.Elem())+")", fmt.Sprintf("(select %s (s-ref %s))", h, src.T))
		srcAt = func(k string) string { return fmt.Sprintf("(select %s (+ (s-off %s) %s))", sarr, src.T, k) }
	}
	n := e.define("cp_n", sInt, fmt.Sprintf("(ite (< (s-len %s) %s) (s-len %s) %s)", dst.T, srcLen, dst.T, srcLen))
	f.frameCheckRegion(in, hn, fmt.Sprintf("(s-ref %s)", dst.T), fmt.Sprintf("(s-off %s)", dst.T), fmt.Sprintf("(+ (s-off %s) %s)", dst.T, n), guard, st)
	h := e.getHeap(st, hn, hs)
	darr := fmt.Sprintf("(select %s (s-ref %s))", h, dst.T)
	na := e.fresh("cp_arr", "(Array Int "+e.tt().sortOf(dt.Elem())+")")
	e.assert(fmt.Sprintf("(forall ((k Int)) (! (= (select %s k) (ite (and (<= (s-off %s) k) (< k (+ (s-off %s) %s))) %s (select %s k))) :pattern ((select %s k))))",
		na, dst.T, dst.T, n, srcAt(fmt.Sprintf("(- k (s-off %s))", dst.T)), darr, na))
	// n == 0 (or nil dst): heap unchanged
	e.setHeap(st, hn, hs, fmt.Sprintf("(ite (> %s 0) (store %s (s-ref %s) %s) %s)", n, h, dst.T, na, h))
	return Val{T: n, Typ: rt}
}

func (f *Frame) builtinAppend(in ssa.Instruction, c *ssa.CallCommon, guard string, st *State, args []Val, rt types.Type) Val {
	e := f.e
	s, t := args[0], args[1]
	stype := c.Args[0].Type().Underlying().(*types.Slice)
	es := e.tt().sortOf(stype.Elem())
	hn, hs := e.elemHeap(stype.Elem())
	h := e.getHeap(st, hn, hs)
	var tLen string
	var tAt func(k string) string
	single := ""
	if isString(c.Args[1].Type()) {
		tLen = fmt.Sprintf("(slen %s)", t.T)
		tAt = func(k string) string { return fmt.Sprintf("(sat %s %s)", t.T, k) }
	} else {
		tLen = fmt.Sprintf("(s-len %s)", t.T)
		tarr := e.define("ap_src", "(Array Int "+es+")", fmt.Sprintf("(select %s (s-ref %s))", h, t.T))
		tAt = func(k string) string { return fmt.Sprintf("(select %s (+ (s-off %s) %s))", tarr, t.T, k) }
		// single-element varargs pattern
		if sl, ok := c.Args[1].(*ssa.Slice); ok {
			if al, ok := sl.X.(*ssa.Alloc); ok {
				if at, ok := isArray(al.Type().(*types.Pointer).Elem()); ok && at.Len() == 1 && sl.Low == nil && sl.High == nil {
					single = tAt("0")
					tLen = "1"
				}
			}
		}
	}
	n := e.define("ap_n", sInt, fmt.Sprintf("(+ (s-len %s) %s)", s.T, tLen))
	fits := e.define("ap_fits", sBool, fmt.Sprintf("(<= %s (s-cap %s))", n, s.T))
	sarr := e.define("ap_old", "(Array Int "+es+")", fmt.Sprintf("(select %s (s-ref %s))", h, s.T))
	nref := e.newRef(st, "ap")
	ncap := e.fresh("ap_cap", sInt)
	e.assert(fmt.Sprintf("(and (>= %s %s) (< (+ (s-off %s) %s) 4611686018427387904))", ncap, n, s.T, ncap))
	var inplace, fresh string
	// The reallocated backing array keeps the old offset (offsets are unobservable), so that the copied prefix has
	// the same absolute indices in both arrays: facts are stated with bare indices.
	end := fmt.Sprintf("(+ (s-off %s) (s-len %s))", s.T, s.T)
	if single != "" {
		inplace = fmt.Sprintf("(store %s %s %s)", sarr, end, single)
		fa := e.fresh("ap_new", "(Array Int "+es+")")
		// two alternative triggers: a read of the new array, or a read of the old one (so that facts known about an
		// old element carry over without a term of the new array having to exist first)
		e.assert(fmt.Sprintf("(forall ((k Int)) (! (=> (and (<= (s-off %s) k) (< k %s)) (= (select %s k) (select %s k))) :pattern ((select %s k)) :pattern ((select %s k))))", s.T, end, fa, sarr, fa, sarr))
		e.assert(fmt.Sprintf("(= (select %s %s) %s)", fa, end, single))
		fresh = fa
	} else {
		ia := e.fresh("ap_inpl", "(Array Int "+es+")")
		e.assert(fmt.Sprintf("(forall ((k Int)) (! (= (select %s k) (ite (and (<= %s k) (< k (+ %s %s))) %s (select %s k))) :pattern ((select %s k))))",
			ia, end, end, tLen, tAt(fmt.Sprintf("(- k %s)", end)), sarr, ia))
		inplace = ia
		fa := e.fresh("ap_new", "(Array Int "+es+")")
		e.assert(fmt.Sprintf("(forall ((k Int)) (! (=> (and (<= (s-off %s) k) (< k (+ (s-off %s) %s))) (= (select %s k) (ite (< k %s) (select %s k) %s))) :pattern ((select %s k))))",
			s.T, s.T, n, fa, end, sarr, tAt(fmt.Sprintf("(- k %s)", end)), fa))
		fresh = fa
	}
	// in-place writes must be allowed by the frame
	f.frameCheckRegionCond(in, hn, fmt.Sprintf("(s-ref %s)", s.T), fmt.Sprintf("(+ (s-off %s) (s-len %s))", s.T, s.T), fmt.Sprintf("(+ (s-off %s) %s)", s.T, n), and(guard, fits, fmt.Sprintf("(> %s 0)", tLen)), st)
	e.setHeap(st, hn, hs, fmt.Sprintf("(ite %s (ite (> %s 0) (store %s (s-ref %s) %s) %s) (store %s %s %s))", fits, tLen, h, s.T, inplace, h, h, nref, fresh))
	res := fmt.Sprintf("(ite %s (mk-slice (s-ref %s) (s-off %s) %s (s-cap %s)) (mk-slice %s (s-off %s) %s %s))", fits, s.T, s.T, n, s.T, nref, s.T, n, ncap)
	r := e.define("ap_res", sSlice, res)
	return Val{T: r, Typ: rt}
}

// callOrdinal: the 1-based position (in source order) of this call among the calls of the same callee in the function.
func (f *Frame) callOrdinal(in ssa.Instruction, callee string) int {
	type site struct {
		pos int
		in  ssa.Instruction
	}
	var sites []site
	for _, b := range f.fn.Blocks {
		for _, x := range b.Instrs {
			ci, ok := x.(ssa.CallInstruction)
			if !ok {
				continue
			}
			if fn, ok := ci.Common().Value.(*ssa.Function); ok && f.e.P.fnName(fn) == callee {
				sites = append(sites, site{int(x.Pos()), x})
			}
		}
	}
	sort.Slice(sites, func(i, j int) bool { return sites[i].pos < sites[j].pos })
	for i, s := range sites {
		if s.in == in {
			return i + 1
		}
	}
	return 0
}

var reEmbPow = regexp.MustCompile(`\b[0-9]{13,}\b`)

// embBitsOf: the powers of two (>= 2^40) added to the base in an embedded-struct reference expression.
func embBitsOf(ref string) []string {
	var out []string
	for _, m := range reEmbPow.FindAllString(ref, -1) {
		out = append(out, m)
	}
	return out
}
