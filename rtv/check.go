package main

// rtv check: decide one property; write evidence; print VIOLATION / KNOWN-FINDING lines.

import (
	"os/exec"
	"regexp"
	"encoding/json"
	"flag"
	"fmt"
	"os"
	"path/filepath"
	"runtime"
	"sort"
	"strconv"
	"strings"
	"time"
)

type KnownFinding struct {
	Kind       string `json:"kind"` // finding | fixed
	Property   string `json:"property"`
	Obligation string `json:"obligation"` // obligation name (exact) for findings
	What       string `json:"what"`
	Commit     string `json:"commit,omitempty"`
	Input      string `json:"input,omitempty"`
}

type KnownFile struct {
	Findings []KnownFinding `json:"findings"`
	Lines    []string       `json:"lines"`
}

func verifDir() string {
	if d := os.Getenv("RTV_VERIF_DIR"); d != "" {
		return d
	}
	exe, err := os.Executable()
	if err == nil {
		d := filepath.Dir(filepath.Dir(exe))
		if _, err := os.Stat(filepath.Join(d, "properties.jsonl")); err == nil {
			return d
		}
	}
	return "/verif"
}

func loadKnown(dir string) *KnownFile {
	kf := &KnownFile{}
	b, err := os.ReadFile(filepath.Join(dir, "known_findings.json"))
	if err == nil {
		json.Unmarshal(b, kf)
	}
	return kf
}

type Lock struct {
	Obligations map[string][]string `json:"obligations"` // property -> stable obligation names
	Counts      map[string]int      `json:"counts"`      // property -> total number of obligations
}

func loadLock(dir string) *Lock {
	l := &Lock{Obligations: map[string][]string{}, Counts: map[string]int{}}
	b, err := os.ReadFile(filepath.Join(dir, "obligations.lock"))
	if err == nil {
		json.Unmarshal(b, l)
	}
	return l
}

func stableKind(k string) bool {
	switch k {
	case "ensures", "call-requires", "loop-entry", "loop-preserve", "loop-decreases", "assert", "lemma":
		return true
	}
	return false
}

func hasProp(props []string, p string) bool {
	for _, x := range props {
		if x == p {
			return true
		}
	}
	return false
}

// functionsFor returns the names of contracts that carry obligations for the property.
func (p *Program) functionsFor(prop string) []string {
	var out []string
	for _, n := range p.CS.Order {
		c := p.CS.Funcs[n]
		if c.Kind == "extern" || c.Kind == "iface" || c.Kind == "callback" || (c.Trusted && !c.CheckCalls) || c.Inline {
			continue
		}
		use := hasProp(c.Props, prop) || hasProp(c.NoPanicP, prop) || hasProp(c.FrameP, prop)
		for _, cl := range append(append([]*Clause{}, c.Requires...), c.Ensures...) {
			if hasProp(cl.Props, prop) {
				use = true
			}
		}
		for _, ls := range c.Loops {
			for _, cl := range ls.Invariants {
				if hasProp(cl.Props, prop) {
					use = true
				}
			}
		}
		if use {
			out = append(out, n)
		}
	}
	return out
}

type evidence struct {
	PropertyID  string                 `json:"property_id"`
	Tier        string                 `json:"tier"`
	Seed        int                    `json:"seed"`
	Level       string                 `json:"level"`
	Coverage    map[string]interface{} `json:"coverage"`
	Assumptions []string               `json:"assumptions"`
	WallS       float64                `json:"wall_s"`
	Violations  int                    `json:"violations"`
}

func cmdCheck(args []string) {
	fs := flag.NewFlagSet("check", flag.ExitOnError)
	repo := fs.String("repo", "/repo", "repository directory")
	prop := fs.String("property", "", "property id")
	tier := fs.String("tier", "quick", "quick|thorough")
	baseline := fs.Bool("baseline", false, "rewrite obligations.lock for this property")
	fs.Parse(args)
	if *prop == "" {
		usage()
	}
	t0 := time.Now()
	vdir := verifDir()
	seed, _ := strconv.Atoi(os.Getenv("VERIF_SEED"))
	timeout := 30
	if *tier == "thorough" {
		timeout = 120
	}
	if v, err := strconv.Atoi(os.Getenv("RTV_TIMEOUT")); err == nil && v > 0 {
		timeout = v
	}
	outDir := vdir
	if d := os.Getenv("RTV_OUT_DIR"); d != "" {
		outDir = d
	}
	evPath := filepath.Join(outDir, "evidence", *prop+".json")
	os.MkdirAll(filepath.Dir(evPath), 0755)
	os.Remove(evPath)
	replayDir := filepath.Join(outDir, "replays")
	os.MkdirAll(replayDir, 0755)

	p, err := loadProgram(*repo)
	if err != nil {
		fmt.Fprintln(os.Stderr, "load:", err)
		// the tree does not build with the contracts: report as violation of binding
		rp := filepath.Join(replayDir, *prop+"-load-failure.txt")
		os.WriteFile(rp, []byte(fmt.Sprintf("rtv could not load %s with -tags verif:\n%v\n", *repo, err)), 0644)
		fmt.Printf("VIOLATION property=%s replay=%s no-failing-input-found\n", *prop, rp)
		os.Exit(1)
	}
	names := p.functionsFor(*prop)
	// scratch directories of runs that were killed: remove when clearly stale
	if old, _ := filepath.Glob(filepath.Join(os.TempDir(), "rtv-smt-*")); len(old) > 0 {
		for _, d := range old {
			if fi, err := os.Stat(d); err == nil && time.Since(fi.ModTime()) > 3*time.Hour {
				os.RemoveAll(d)
			}
		}
	}
	dir, _ := os.MkdirTemp("", "rtv-smt-")
	defer os.RemoveAll(dir)
	var frs []*FuncResult
	for _, n := range names {
		frs = append(frs, p.verifyFuncViews(n)...)
	}
	filter := func(o *Obl) bool { return hasProp(o.Props, *prop) }
	par := runtime.NumCPU() * 5 / 8 // the staged portfolio may run three solvers per obligation: leave headroom
	if par < 2 {
		par = 2
	}
	dischargeAll(frs, dir, timeout, par, filter)

	known := loadKnown(vdir)
	lock := loadLock(vdir)

	var total, discharged, covers, coverOK int
	byBackend := map[string]map[string]float64{}
	var samples []map[string]interface{}
	var slowest []map[string]interface{}
	var failures []*Obl
	var allNames []string
	var stableNames []string
	var bindErrs []string
	assumptions := map[string]bool{}
	solverTime := 0.0
	funcsUnder := []string{}
	for _, fr := range frs {
		funcsUnder = append(funcsUnder, fr.Name)
		for _, e := range fr.Errs {
			bindErrs = append(bindErrs, fr.Name+": "+e)
		}
		for _, n := range fr.Notes {
			assumptions[n] = true
		}
		for _, o := range fr.Obls {
			if !filter(o) {
				continue
			}
			solverTime += o.Secs
			if o.Cover {
				covers++
				if o.Result != "unsat" {
					coverOK++
				} else {
					failures = append(failures, o)
				}
				continue
			}
			total++
			allNames = append(allNames, lockName(o.Name))
			if stableKind(o.Kind) {
				stableNames = append(stableNames, lockName(o.Name))
			}
			if o.Result == "unsat" {
				discharged++
				bb := byBackend[o.Backend]
				if bb == nil {
					bb = map[string]float64{}
					byBackend[o.Backend] = bb
				}
				bb["count"]++
				bb["seconds"] += o.Secs
			} else {
				failures = append(failures, o)
			}
			if len(samples) < 6 || o.Secs > 1.0 && len(samples) < 12 {
				samples = append(samples, map[string]interface{}{"obligation": o.Name, "kind": o.Kind, "result": o.Result, "backend": o.Backend, "seconds": round3(o.Secs), "clause": o.Note})
			}
		}
	}
	// slowest
	var all []*Obl
	for _, fr := range frs {
		for _, o := range fr.Obls {
			if filter(o) && !o.Cover {
				all = append(all, o)
			}
		}
	}
	sort.Slice(all, func(i, j int) bool { return all[i].Secs > all[j].Secs })
	for i := 0; i < len(all) && i < 5; i++ {
		slowest = append(slowest, map[string]interface{}{"obligation": all[i].Name, "seconds": round3(all[i].Secs), "backend": all[i].Backend})
	}

	if *baseline {
		sort.Strings(stableNames)
		stableNames = uniqStrings(stableNames)
		lock.Obligations[*prop] = stableNames
		lock.Counts[*prop] = total
		b, _ := json.MarshalIndent(lock, "", " ")
		os.WriteFile(filepath.Join(vdir, "obligations.lock"), append(b, '\n'), 0644)
		fmt.Printf("baseline: %s: %d obligations (%d stable names) recorded\n", *prop, total, len(stableNames))
	}

	violations := 0
	knownHits := []string{}
	report := func(o *Obl, why string) {
		// known finding?
		for _, k := range known.Findings {
			if k.Kind == "finding" && k.Property == *prop && lockName(k.Obligation) == lockName(o.Name) {
				fmt.Printf("KNOWN-FINDING: property=%s %s (obligation %s)\n", *prop, k.What, o.Name)
				knownHits = append(knownHits, o.Name)
				return
			}
		}
		violations++
		rp := filepath.Join(replayDir, *prop+"-"+sanitize(o.Name)+".txt")
		suffix := ""
		body := fmt.Sprintf("property: %s\nfailed obligation: %s\nkind: %s\nfunction: %s\nposition: %s\nclause: %s\nsolver result: %s (%s, %.2fs)\nreason: %s\n", *prop, o.Name, o.Kind, o.Fn, o.Pos, o.Note, o.Result, o.Backend, o.Secs, why)
		confirmed := false
		if (o.Result == "sat" || o.Relaxed != "") && o.Model != "" {
			body += "\n--- solver model ---\n" + o.Model + "\n"
			rtxt, ok := tryReplay(p, o, *repo)
			body += "\n--- replay on the real code ---\n" + rtxt + "\n"
			confirmed = ok
		} else {
			body += "\n--- solver output ---\n" + o.Model + "\n"
		}
		if !confirmed {
			suffix = " no-failing-input-found"
		}
		os.WriteFile(rp, []byte(body), 0644)
		fmt.Printf("VIOLATION property=%s replay=%s%s\n", *prop, rp, suffix)
	}
	for _, o := range failures {
		if o.Cover {
			report(o, "vacuity check: the assumptions of this function are contradictory (cover query unsat)")
		} else {
			report(o, "obligation not discharged")
		}
	}
	// binding failures
	for i, be := range bindErrs {
		violations++
		rp := filepath.Join(replayDir, fmt.Sprintf("%s-binding-%d.txt", *prop, i))
		os.WriteFile(rp, []byte("contract binding / encoding failure:\n"+be+"\n"), 0644)
		fmt.Printf("VIOLATION property=%s replay=%s no-failing-input-found\n", *prop, rp)
	}
	// locked obligations must still exist
	have := map[string]bool{}
	for _, n := range allNames {
		have[n] = true
	}
	for _, n := range lock.Obligations[*prop] {
		if !have[n] {
			violations++
			rp := filepath.Join(replayDir, *prop+"-missing-"+sanitize(n)+".txt")
			os.WriteFile(rp, []byte("obligation recorded in obligations.lock is no longer generated (contract no longer binds, or the code it was attached to is gone):\n"+n+"\n"), 0644)
			fmt.Printf("VIOLATION property=%s replay=%s no-failing-input-found\n", *prop, rp)
		}
	}
	if c, ok := lock.Counts[*prop]; ok && total*10 < c*8 {
		violations++
		rp := filepath.Join(replayDir, *prop+"-obligation-count.txt")
		os.WriteFile(rp, []byte(fmt.Sprintf("only %d obligations generated, %d recorded in obligations.lock\n", total, c)), 0644)
		fmt.Printf("VIOLATION property=%s replay=%s no-failing-input-found\n", *prop, rp)
	}

	// evidence
	var asm []string
	for a := range assumptions {
		asm = append(asm, a)
	}
	sort.Strings(asm)
	asm = append(asm, standingAssumptions(p, names)...)
	if *prop == "C02" {
		asm = append(asm, "conditional hypothesis of every C02 clause (not proved; it is what C14 and the decode side of C01 state): the abstract view of a writer-produced table - blkModel(b), linked(b, r, off), tabM(r), tabMH(r, typ) as defined in verif_contracts.go - holds for the reader and the blocks the seek touches")
	}
	bb := map[string]interface{}{}
	for k, v := range byBackend {
		bb[k] = map[string]interface{}{"count": int(v["count"]), "seconds": round3(v["seconds"])}
	}
	disNum := discharged + len(knownHits)
	_ = disNum
	// thorough tier: the must-fail corpus of this property (changes that break it) is run against scratch copies of the
	// working tree; what it catches is evidence about the check, not about the tree, and does not change the exit code
	var mutationRuns []map[string]interface{}
	if *tier == "thorough" && violations == 0 && os.Getenv("RTV_NO_SELFTEST") == "" {
		self, _ := os.Executable()
		c := exec.Command(self, "selftest", "-repo", *repo, "-property", *prop)
		c.Env = append(os.Environ(), "RTV_NO_SELFTEST=1")
		out, _ := c.CombinedOutput()
		for _, ln := range strings.Split(string(out), "\n") {
			f := strings.Fields(ln)
			if len(f) >= 3 && f[0] == "selftest" {
				mutationRuns = append(mutationRuns, map[string]interface{}{"change": f[1], "result": f[2]})
				fmt.Printf("mutation-selftest: %s %s\n", f[1], f[2])
			}
		}
	}
	cov := map[string]interface{}{
		// an obligation that fails because of a recorded known finding is not claimed: it is listed under
		// known_finding_obligations and left out of the count, so that obligations == discharged on a passing run
		"obligations":               total - len(knownHits),
		"discharged":                discharged,
		"obligations_generated":     total,
		"known_finding_obligations": knownHits,
		"mutation_selftest":         mutationRuns,
		"checker_cmd":               fmt.Sprintf("bin/rtv check --property %s --tier %s", *prop, *tier),
		"trusted_base":              trustedBase(),
		"functions_under_contract":  funcsUnder,
		"by_backend":                bb,
		"solver_time_s":             round3(solverTime),
		"slowest":                   slowest,
		"samples":                   samples,
		"vacuity":                   map[string]interface{}{"cover_queries": covers, "not_refuted": coverOK},
		"integer_semantics":         "Go machine integers encoded as SMT Int with exact wrap-around (not mathematical)",
		"timeout_s":                 timeout,
	}
	if extra := propertyExtras(*prop); extra != nil {
		for k, v := range extra {
			cov[k] = v
		}
	}
	ev := evidence{PropertyID: *prop, Tier: *tier, Seed: seed, Level: "proof", Coverage: cov, Assumptions: asm, WallS: round3(time.Since(t0).Seconds()), Violations: violations}
	b, _ := json.MarshalIndent(ev, "", " ")
	os.WriteFile(evPath, append(b, '\n'), 0644)
	fmt.Printf("%s: %d obligations, %d discharged, %d known findings, %d violations, %.1fs\n", *prop, total, discharged, len(knownHits), violations, time.Since(t0).Seconds())
	if violations > 0 {
		os.RemoveAll(dir) // os.Exit skips the deferred clean-up
		os.Exit(1)
	}
}

func round3(x float64) float64 { return float64(int(x*1000+0.5)) / 1000 }

func trustedBase() []string {
	return []string{
		"rtv's go/ssa -> SMT encoding of Go (no proof of the encoder; mitigated by replay of sat models and the must-fail mutant corpus)",
		"golang.org/x/tools v0.29.0 go/packages, go/types, go/ssa",
		"SMT solvers z3 5.1.0 (z3-new), z3 4.8.12, cvc5 1.0.3: an unsat from any one is believed",
		"bit-vector/unsigned-integer identification for the disjoint-bits lemma instances of | on machine integers",
		"fewer than 2^39 heap allocations per execution (reference arithmetic for embedded structs)",
	}
}

func standingAssumptions(p *Program, fns []string) []string {
	var out []string
	for name, doc := range externModelDocs {
		out = append(out, "extern model (trusted): "+name+": "+doc)
	}
	for _, n := range p.CS.Order {
		c := p.CS.Funcs[n]
		if c.Kind == "extern" {
			out = append(out, "extern contract (trusted): "+n)
		}
		if c.Kind == "callback" {
			out = append(out, "callback contract (assumed for the caller-supplied function): "+n)
		}
		if c.Kind == "iface" {
			out = append(out, "interface contract (assumed at dynamic calls; implementations listed under functions_under_contract are checked against it where a contract names them): "+n)
		}
		if c.Trusted && c.TrustCalls {
			out = append(out, "trusted contract (body walked only for its 'proves' clauses and the loop invariants they need; callee preconditions inside are assumed): "+n)
		} else if c.Trusted && c.CheckCalls {
			out = append(out, "trusted contract (postconditions and frame assumed; the body is walked for the preconditions of the functions it calls): "+n)
		} else if c.Trusted {
			out = append(out, "trusted contract (body not verified): "+n)
		}
		for _, cl := range c.Ensures {
			if cl.Assumed && c.Kind == "func" && !c.Trusted {
				out = append(out, "assumed model clause (given to callers, not checked against the body): "+n+": "+clauseName(cl)+": "+cl.Text)
			}
		}
	}
	for _, a := range p.CS.Axioms {
		if !a.Lemma {
			out = append(out, "axiom (assumed): "+a.Name+": "+a.Text)
		}
	}
	sort.Strings(out)
	return out
}

func propertyExtras(prop string) map[string]interface{} { return nil }

// tryReplay: see replay.go
var _ = strings.TrimSpace

var reLockSuffix = regexp.MustCompile(`(@b[0-9]+|#[0-9]+)+$`)

// lockName: the part of an obligation name that survives harmless edits (block numbers of return sites and ordinals of
// repeated call sites are dropped).
func lockName(n string) string {
	n = reLockSuffix.ReplaceAllString(n, "")
	// obligations of a proof view are named <name>@b<N>@<view>: the block number in front of the view goes as well
	if m := reViewSuffix.FindStringSubmatch(n); m != nil && !reBlockOnly.MatchString(m[2]) {
		return reLockSuffix.ReplaceAllString(m[1], "") + "@" + m[2]
	}
	return n
}

var reViewSuffix = regexp.MustCompile(`^(.*)@([a-z][a-z0-9]*)$`)
var reBlockOnly = regexp.MustCompile(`^b[0-9]+$`)

func uniqStrings(xs []string) []string {
	var out []string
	for i, x := range xs {
		if i == 0 || x != xs[i-1] {
			out = append(out, x)
		}
	}
	return out
}
