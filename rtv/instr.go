package main

// Instruction semantics.

import (
	"fmt"
	"go/token"
	"go/types"
	"strings"

	"golang.org/x/tools/go/ssa"
)

func (f *Frame) set(v ssa.Value, r Val) {
	if r.Typ == nil {
		r.Typ = v.Type()
	}
	f.vals[v] = r
}

// bind defines a named constant for the SSA value.
func (f *Frame) bind(v ssa.Value, term string) Val {
	e := f.e
	t := v.Type()
	if len(term) < 40 && !strings.Contains(term, "(let") {
		r := Val{T: term, Typ: t}
		f.vals[v] = r
		return r
	}
	n := f.name(v)
	if e.declared[n] {
		n = e.fresh(n, e.tt().sortOf(t))
	} else {
		e.decl(n, e.tt().sortOf(t))
	}
	e.assert(eq(n, term))
	r := Val{T: n, Typ: t}
	f.vals[v] = r
	return r
}

func (f *Frame) instr(in ssa.Instruction, guard string, st *State) {
	e := f.e
	tt := e.tt()
	switch x := in.(type) {
	case *ssa.DebugRef:
		return
	case *ssa.Alloc:
		f.alloc(x, st)
	case *ssa.BinOp:
		f.binop(x, guard)
	case *ssa.UnOp:
		f.unop(x, guard, st)
	case *ssa.Store:
		f.store(x, guard, st)
	case *ssa.FieldAddr:
		f.fieldAddr(x, guard)
	case *ssa.Field:
		xv := f.val(x.X)
		s, _ := isStruct(x.X.Type())
		sn := tt.structSortOf(x.X.Type(), s)
		f.bind(x, fmt.Sprintf("(%s_%d %s)", sn, x.Field, xv.T))
	case *ssa.IndexAddr:
		f.indexAddr(x, guard)
	case *ssa.Index:
		xv := f.val(x.X)
		iv := f.val(x.Index)
		if at, ok := isArray(x.X.Type()); ok {
			f.rtCheck("index", x, guard, fmt.Sprintf("(and (<= 0 %s) (< %s %d))", iv.T, iv.T, at.Len()), describe(x))
			f.bind(x, fmt.Sprintf("(select %s %s)", xv.T, iv.T))
		} else if isString(x.X.Type()) {
			// s[i] on a string (go/ssa uses Index for strings as well as arrays)
			f.rtCheck("index", x, guard, fmt.Sprintf("(and (<= 0 %s) (< %s (slen %s)))", iv.T, iv.T, xv.T), describe(x))
			f.bind(x, fmt.Sprintf("(sat %s %s)", xv.T, iv.T))
		} else {
			f.set(x, f.freshVal(x.Name(), x.Type()))
		}
	case *ssa.Lookup:
		xv := f.val(x.X)
		iv := f.val(x.Index)
		if b, ok := x.X.Type().Underlying().(*types.Basic); ok && b.Info()&types.IsString != 0 {
			f.rtCheck("index", x, guard, fmt.Sprintf("(and (<= 0 %s) (< %s (slen %s)))", iv.T, iv.T, xv.T), describe(x))
			f.bind(x, fmt.Sprintf("(sat %s %s)", xv.T, iv.T))
		} else {
			// map lookup: unconstrained (map contents are not modelled), deterministic per (map state, key) via UF
			f.mapLookup(x, xv, iv, st)
		}
	case *ssa.Slice:
		f.slice(x, guard, st)
	case *ssa.Convert:
		f.convert(x, guard, st)
	case *ssa.ChangeType:
		v := f.val(x.X)
		v.Typ = x.Type()
		f.vals[x] = v
	case *ssa.ChangeInterface:
		v := f.val(x.X)
		v.Typ = x.Type()
		f.vals[x] = v
	case *ssa.MakeInterface:
		f.makeInterface(x, st)
	case *ssa.TypeAssert:
		f.typeAssert(x, guard, st)
	case *ssa.Extract:
		tv := f.val(x.Tuple)
		if x.Index < len(tv.Tuple) {
			f.vals[x] = tv.Tuple[x.Index]
		} else {
			f.set(x, f.freshVal(x.Name(), x.Type()))
		}
	case *ssa.MakeSlice:
		f.makeSlice(x, guard, st)
	case *ssa.MakeMap:
		r := e.newRef(st, "map")
		f.set(x, Val{T: r})
		if mt, ok := x.Type().Underlying().(*types.Map); ok {
			// a new map has no keys and length 0
			n, _, psort := f.mapHeap(mt)
			pres := e.getHeap(st, n+"_p", psort)
			ks := e.tt().sortOf(mt.Key())
			e.setHeap(st, n+"_p", psort, fmt.Sprintf("(store %s %s ((as const (Array %s Bool)) false))", pres, r, ks))
			ln := e.getHeap(st, n+"_n", "(Array Int Int)")
			e.setHeap(st, n+"_n", "(Array Int Int)", fmt.Sprintf("(store %s %s 0)", ln, r))
		}
	case *ssa.MapUpdate:
		f.mapUpdate(x, st)
	case *ssa.MakeClosure:
		var bs []Val
		for _, b := range x.Bindings {
			bs = append(bs, f.val(b))
		}
		f.set(x, Val{T: "0", Clo: &Closure{Fn: x.Fn.(*ssa.Function), Bindings: bs}})
	case *ssa.Range:
		// iteration state: opaque
		f.set(x, Val{T: "0", Tuple: []Val{f.val(x.X)}})
	case *ssa.Next:
		// (ok, k, v): fresh
		tup := x.Type().(*types.Tuple)
		var vs []Val
		for i := 0; i < tup.Len(); i++ {
			fv := f.freshVal(fmt.Sprintf("%s_%d", x.Name(), i), tup.At(i).Type())
			e.assert(e.wfVal(fv.T, tup.At(i).Type(), st.alloc))
			vs = append(vs, fv)
		}
		if rg, ok := x.Iter.(*ssa.Range); ok && !x.IsString {
			if mt, ok := rg.X.Type().Underlying().(*types.Map); ok && len(vs) == 3 {
				// a produced (key, value) pair is an entry of the map at this moment
				n, vsort, psort := f.mapHeap(mt)
				mv := f.val(rg.X)
				if b, isB := tup.At(1).Type().(*types.Basic); isB && b.Kind() == types.Invalid {
					vs[1] = f.freshVal(x.Name()+"_key", mt.Key()) // unused key: some key
				}
				if b, isB := tup.At(2).Type().(*types.Basic); isB && b.Kind() == types.Invalid {
					vs[2] = f.freshVal(x.Name()+"_val", mt.Elem())
				}
				vals := e.getHeap(st, n+"_v", vsort)
				pres := e.getHeap(st, n+"_p", psort)
				e.assert(implies(vs[0].T, and(fmt.Sprintf("(select (select %s %s) %s)", pres, mv.T, vs[1].T),
					eq(fmt.Sprintf("(select (select %s %s) %s)", vals, mv.T, vs[1].T), vs[2].T))))
			}
		}
		f.set(x, Val{Tuple: vs})
	case *ssa.Call:
		res := f.call(x, x.Common(), guard, st)
		f.vals[x] = res
	case *ssa.Defer:
		var args []Val
		for _, a := range x.Call.Args {
			args = append(args, f.val(a))
		}
		var fv Val
		if !x.Call.IsInvoke() {
			fv = f.val(x.Call.Value)
		} else {
			fv = f.val(x.Call.Value)
		}
		f.defers = append(f.defers, &deferRec{block: x.Block(), guard: guard, call: x, args: args, fnVal: fv, order: len(f.defers)})
	case *ssa.RunDefers:
		for i := len(f.defers) - 1; i >= 0; i-- {
			d := f.defers[i]
			if !f.canReach(d.block, x.Block()) {
				continue // registered on a path that cannot lead here
			}
			g := and(guard, d.guard)
			// execute on a copy and merge by guard
			ds := st.clone()
			f.callCommon(d.call, &d.call.Call, g, ds, d.args, d.fnVal, true)
			f.mergeInto(st, ds, d.guard)
		}
	case *ssa.Return:
		var rs []Val
		for _, r := range x.Results {
			rs = append(rs, f.val(r))
		}
		f.rets = append(f.rets, &retRec{block: x.Block().Index, guard: guard, results: rs, state: st.clone()})
	case *ssa.If:
		c := f.val(x.Cond).T
		if e.declared[c] {
			e.splitVars = append(e.splitVars, c)
		}
		b := x.Block()
		f.edgeCond[[2]int{b.Index, b.Succs[0].Index}] = c
		f.edgeCond[[2]int{b.Index, b.Succs[1].Index}] = not(c)
	case *ssa.Jump:
		b := x.Block()
		f.edgeCond[[2]int{b.Index, b.Succs[0].Index}] = "true"
	case *ssa.Panic:
		f.explicitPanic(x, guard, describe(x))
	case *ssa.Go, *ssa.Send, *ssa.Select, *ssa.MakeChan:
		e.errorf("%s: unsupported instruction %T", e.P.fnName(f.fn), in)
	case *ssa.SliceToArrayPointer, *ssa.MultiConvert:
		e.errorf("%s: unsupported instruction %T", e.P.fnName(f.fn), in)
	default:
		e.errorf("%s: unhandled instruction %T", e.P.fnName(f.fn), in)
	}
}

// mergeInto: st := ite(g, ds, st)
func (f *Frame) mergeInto(st, ds *State, g string) {
	e := f.e
	names := map[string]bool{}
	for h := range ds.heaps {
		names[h] = true
	}
	for h := range st.heaps {
		names[h] = true
	}
	for _, h := range sortedKeys(names) {
		sortS := e.heapSort[h]
		a := e.getHeap(ds, h, sortS)
		b := e.getHeap(st, h, sortS)
		if a != b {
			st.heaps[h] = e.define("hd_"+h, sortS, ite(g, a, b))
		}
	}
	if ds.alloc != st.alloc {
		st.alloc = e.define("alloc_d", sInt, ite(g, ds.alloc, st.alloc))
	}
}

func (f *Frame) alloc(x *ssa.Alloc, st *State) {
	e := f.e
	elem := x.Type().(*types.Pointer).Elem()
	r := e.newRef(st, sanitize(x.Comment))
	if _, ok := isStruct(elem); ok {
		e.storeStruct(st, r, elem, e.tt().zero(elem))
		f.set(x, Val{T: r})
		return
	}
	if at, ok := isArray(elem); ok {
		hn, hs := e.elemHeap(at.Elem())
		e.setHeap(st, hn, hs, fmt.Sprintf("(store %s %s %s)", e.getHeap(st, hn, hs), r, e.tt().zero(elem)))
		f.set(x, Val{T: r})
		return
	}
	hn, hs := e.cellHeap(elem)
	e.setHeap(st, hn, hs, fmt.Sprintf("(store %s %s %s)", e.getHeap(st, hn, hs), r, e.tt().zero(elem)))
	f.set(x, Val{T: r, Loc: &Loc{Kind: LCell, Ref: r, Heap: hn, HSort: hs, Typ: elem}})
}

func (f *Frame) fieldAddr(x *ssa.FieldAddr, guard string) {
	e := f.e
	xv := f.val(x.X)
	st := x.X.Type().Underlying().(*types.Pointer).Elem()
	s, _ := isStruct(st)
	ft := s.Field(x.Field).Type()
	if xv.Loc != nil {
		// pointer into a datatype value
		sn := e.tt().structSortOf(st, s)
		l := *xv.Loc
		l.Path = append(append([]PathStep{}, xv.Loc.Path...), PathStep{Field: x.Field, Sort: sn, NField: s.NumFields()})
		l.Typ = ft
		f.set(x, Val{T: "0", Loc: &l})
		return
	}
	f.rtCheck("nil", x, guard, fmt.Sprintf("(not (= %s 0))", xv.T), describe(x))
	name := e.tt().structName(st)
	if _, ok := isStruct(ft); ok {
		f.bind(x, e.embRef(xv.T, name, x.Field))
		return
	}
	hn, hs := e.fieldHeap(name, x.Field, ft)
	f.set(x, Val{T: "0", Loc: &Loc{Kind: LField, Ref: xv.T, Heap: hn, HSort: hs, Typ: ft}})
}

func (f *Frame) indexAddr(x *ssa.IndexAddr, guard string) {
	e := f.e
	xv := f.val(x.X)
	iv := f.val(x.Index)
	switch xt := x.X.Type().Underlying().(type) {
	case *types.Slice:
		f.rtCheck("index", x, guard, fmt.Sprintf("(and (<= 0 %s) (< %s (s-len %s)))", iv.T, iv.T, xv.T), describe(x))
		hn, hs := e.elemHeap(xt.Elem())
		idx := fmt.Sprintf("(+ (s-off %s) %s)", xv.T, iv.T)
		f.set(x, Val{T: "0", Loc: &Loc{Kind: LElem, Ref: fmt.Sprintf("(s-ref %s)", xv.T), Heap: hn, HSort: hs, Idx: idx, Typ: xt.Elem()}})
	case *types.Pointer:
		at := xt.Elem().Underlying().(*types.Array)
		f.rtCheck("index", x, guard, fmt.Sprintf("(and (<= 0 %s) (< %s %d))", iv.T, iv.T, at.Len()), describe(x))
		if xv.Loc != nil && !(xv.Loc.Kind == LCell && len(xv.Loc.Path) == 0 && strings.HasPrefix(xv.Loc.Heap, "H_")) {
			l := *xv.Loc
			l.Path = append(append([]PathStep{}, xv.Loc.Path...), PathStep{Field: -1, Index: iv.T})
			l.Typ = at.Elem()
			f.set(x, Val{T: "0", Loc: &l})
			return
		}
		hn, hs := e.elemHeap(at.Elem())
		f.rtCheck("nil", x, guard, fmt.Sprintf("(not (= %s 0))", xv.T), describe(x))
		f.set(x, Val{T: "0", Loc: &Loc{Kind: LElem, Ref: xv.T, Heap: hn, HSort: hs, Idx: iv.T, Typ: at.Elem()}})
	}
}

func (f *Frame) unop(x *ssa.UnOp, guard string, st *State) {
	e := f.e
	xv := f.val(x.X)
	switch x.Op {
	case token.MUL: // load
		pt := x.X.Type().Underlying().(*types.Pointer).Elem()
		if g, ok := x.X.(*ssa.Global); ok && isErrType(pt) {
			// error-valued package variables are modelled as distinct non-nil constants (never reassigned)
			name := g.Name()
			if g.Pkg != e.P.Pkg {
				name = g.Pkg.Pkg.Name() + "." + g.Name()
			}
			c := "errG_" + sanitize(name)
			known := false
			for _, d := range e.P.globalDecls {
				if strings.Contains(d, "declare-const "+c+" ") {
					known = true
				}
			}
			if known {
				f.set(x, Val{T: c})
				return
			}
		}
		if xv.Loc == nil {
			f.rtCheck("nil", x, guard, fmt.Sprintf("(not (= %s 0))", xv.T), describe(x))
		}
		var term string
		if _, ok := isStruct(pt); ok && xv.Loc == nil {
			term = e.loadStruct(st, xv.T, pt)
		} else {
			term = e.loadLoc(st, e.locOfPtr(xv, pt))
		}
		r := f.bind(x, term)
		e.assume(guard, e.wfVal(r.T, pt, st.alloc))
	case token.NOT:
		f.bind(x, not(xv.T))
	case token.SUB:
		f.bind(x, wrapTo(fmt.Sprintf("(- %s)", xv.T), x.Type()))
	case token.XOR:
		// bitwise complement
		lo, hi, _, signed, _ := intRange(x.Type())
		_ = lo
		if signed {
			f.bind(x, fmt.Sprintf("(- (- %s) 1)", xv.T))
		} else {
			f.bind(x, fmt.Sprintf("(- %s %s)", smtInt(hi), xv.T))
		}
	default:
		e.errorf("unop %v unsupported", x.Op)
		f.set(x, f.freshVal(x.Name(), x.Type()))
	}
}

func (f *Frame) store(x *ssa.Store, guard string, st *State) {
	e := f.e
	av := f.val(x.Addr)
	vv := f.val(x.Val)
	pt := x.Addr.Type().Underlying().(*types.Pointer).Elem()
	if av.Loc == nil {
		f.rtCheck("nil", x, guard, fmt.Sprintf("(not (= %s 0))", av.T), describe(x))
	}
	f.frameCheckStore(x, av, pt, guard, st)
	// stores are executed unconditionally in the block's state: the block state is only meaningful under its reach guard
	if _, ok := isStruct(pt); ok && av.Loc == nil {
		e.storeStruct(st, av.T, pt, vv.T)
		return
	}
	l := e.locOfPtr(av, pt)
	e.storeLoc(st, l, vv.T)
	// remember closure identity stored into cells (for later indirect calls)
	if vv.Clo != nil && l.Kind == LCell {
		f.cellClosure(l.Ref, vv.Clo)
	}
}

var cellClosures = map[string]*Closure{}

func (f *Frame) cellClosure(ref string, c *Closure) { cellClosures[ref] = c }

func (f *Frame) slice(x *ssa.Slice, guard string, st *State) {
	e := f.e
	xv := f.val(x.X)
	var lo, hi string
	if x.Low != nil {
		lo = f.val(x.Low).T
	} else {
		lo = "0"
	}
	switch xt := x.X.Type().Underlying().(type) {
	case *types.Slice:
		if x.High != nil {
			hi = f.val(x.High).T
		} else {
			hi = fmt.Sprintf("(s-len %s)", xv.T)
		}
		capT := fmt.Sprintf("(s-cap %s)", xv.T)
		f.rtCheck("slice", x, guard, fmt.Sprintf("(and (<= 0 %s) (<= %s %s) (<= %s %s))", lo, lo, hi, hi, capT), describe(x))
		newCap := fmt.Sprintf("(- (s-cap %s) %s)", xv.T, lo)
		if x.Max != nil {
			mx := f.val(x.Max).T
			f.rtCheck("slice", x, guard, fmt.Sprintf("(and (<= %s %s) (<= %s %s))", hi, mx, mx, capT), describe(x)+"max")
			newCap = fmt.Sprintf("(- %s %s)", mx, lo)
		}
		f.bind(x, fmt.Sprintf("(mk-slice (s-ref %s) (+ (s-off %s) %s) (- %s %s) %s)", xv.T, xv.T, lo, hi, lo, newCap))
	case *types.Basic: // string
		if x.High != nil {
			hi = f.val(x.High).T
		} else {
			hi = fmt.Sprintf("(slen %s)", xv.T)
		}
		f.rtCheck("slice", x, guard, fmt.Sprintf("(and (<= 0 %s) (<= %s %s) (<= %s (slen %s)))", lo, lo, hi, hi, xv.T), describe(x))
		f.bind(x, fmt.Sprintf("(ssub %s %s %s)", xv.T, lo, hi))
	case *types.Pointer:
		at := xt.Elem().Underlying().(*types.Array)
		if x.High != nil {
			hi = f.val(x.High).T
		} else {
			hi = fmt.Sprint(at.Len())
		}
		f.rtCheck("slice", x, guard, fmt.Sprintf("(and (<= 0 %s) (<= %s %s) (<= %s %d))", lo, lo, hi, hi, at.Len()), describe(x))
		if xv.Loc != nil && !(xv.Loc.Kind == LCell && len(xv.Loc.Path) == 0 && strings.HasPrefix(xv.Loc.Heap, "H_")) {
			// slicing an array that lives inside a struct field / global: copy out to a fresh backing array (aliasing lost)
			e.note("slicing of an array embedded in a struct or global is modelled as a copy (writes through the slice are not reflected)")
			r := e.newRef(st, "arrcopy")
			hn, hs := e.elemHeap(at.Elem())
			e.setHeap(st, hn, hs, fmt.Sprintf("(store %s %s %s)", e.getHeap(st, hn, hs), r, e.loadLoc(st, xv.Loc)))
			f.bind(x, fmt.Sprintf("(mk-slice %s %s (- %s %s) (- %d %s))", r, lo, hi, lo, at.Len(), lo))
			return
		}
		f.bind(x, fmt.Sprintf("(mk-slice %s %s (- %s %s) (- %d %s))", xv.T, lo, hi, lo, at.Len(), lo))
	}
}

func (f *Frame) makeSlice(x *ssa.MakeSlice, guard string, st *State) {
	e := f.e
	ln := f.val(x.Len).T
	cp := f.val(x.Cap).T
	f.rtCheck("makeslice", x, guard, fmt.Sprintf("(and (<= 0 %s) (<= %s %s) (<= %s (* 4 alim)))", ln, ln, cp, cp), describe(x))
	r := e.newRef(st, "mk")
	elem := x.Type().Underlying().(*types.Slice).Elem()
	hn, hs := e.elemHeap(elem)
	zeroArr := e.tt().zeroArray(e.tt().sortOf(elem), e.tt().zero(elem))
	e.setHeap(st, hn, hs, fmt.Sprintf("(store %s %s %s)", e.getHeap(st, hn, hs), r, zeroArr))
	f.bind(x, fmt.Sprintf("(mk-slice %s 0 %s %s)", r, ln, cp))
}

func (f *Frame) makeInterface(x *ssa.MakeInterface, st *State) {
	e := f.e
	xv := f.val(x.X)
	tag := e.tt().tagOf(x.X.Type())
	switch x.X.Type().Underlying().(type) {
	case *types.Pointer:
		f.bind(x, fmt.Sprintf("(mk-iface %d %s)", tag, xv.T))
	default:
		// box the value
		r := e.newRef(st, "box")
		hn, hs := e.cellHeap(x.X.Type())
		e.setHeap(st, hn, hs, fmt.Sprintf("(store %s %s %s)", e.getHeap(st, hn, hs), r, xv.T))
		f.bind(x, fmt.Sprintf("(mk-iface %d %s)", tag, r))
	}
}

func (f *Frame) typeAssert(x *ssa.TypeAssert, guard string, st *State) {
	e := f.e
	xv := f.val(x.X)
	var okT, valT string
	if _, isI := x.AssertedType.Underlying().(*types.Interface); isI {
		// interface-to-interface: succeeds if non-nil and implements; approximated: ok unconstrained unless closed world says so
		ok := e.fresh(f.prefix+"_taok", sBool)
		e.assert(implies(ok, fmt.Sprintf("(not (= (i-tag %s) 0))", xv.T)))
		okT, valT = ok, xv.T
	} else {
		tag := e.tt().tagOf(x.AssertedType)
		okT = fmt.Sprintf("(= (i-tag %s) %d)", xv.T, tag)
		switch x.AssertedType.Underlying().(type) {
		case *types.Pointer:
			valT = fmt.Sprintf("(i-ref %s)", xv.T)
		default:
			hn, hs := e.cellHeap(x.AssertedType)
			valT = fmt.Sprintf("(select %s (i-ref %s))", e.getHeap(st, hn, hs), xv.T)
		}
	}
	if x.CommaOk {
		zero := e.tt().zero(x.AssertedType)
		v := Val{T: e.define(f.name(x)+"_v", e.tt().sortOf(x.AssertedType), ite(okT, valT, zero)), Typ: x.AssertedType}
		f.set(x, Val{Tuple: []Val{v, {T: okT, Typ: types.Typ[types.Bool]}}})
		return
	}
	f.rtCheck("typeassert", x, guard, okT, describe(x))
	f.bind(x, valT)
}

// ---------- maps (opaque) ----------

func (f *Frame) mapHeap(mt *types.Map) (string, string, string) {
	e := f.e
	ks := e.tt().sortOf(mt.Key())
	vs := e.tt().sortOf(mt.Elem())
	n := "M_" + sanitize(e.tt().typeString(mt))
	// contents: ref -> key -> value; presence: ref -> key -> Bool
	return n, fmt.Sprintf("(Array Int (Array %s %s))", ks, vs), fmt.Sprintf("(Array Int (Array %s Bool))", ks)
}

func (f *Frame) mapLookup(x *ssa.Lookup, mv, kv Val, st *State) {
	e := f.e
	mt := x.X.Type().Underlying().(*types.Map)
	n, vsort, psort := f.mapHeap(mt)
	vals := e.getHeap(st, n+"_v", vsort)
	pres := e.getHeap(st, n+"_p", psort)
	present := fmt.Sprintf("(select (select %s %s) %s)", pres, mv.T, kv.T)
	v := ite(present, fmt.Sprintf("(select (select %s %s) %s)", vals, mv.T, kv.T), e.tt().zero(mt.Elem()))
	if x.CommaOk {
		vv := Val{T: e.define(f.name(x)+"_v", e.tt().sortOf(mt.Elem()), v), Typ: mt.Elem()}
		e.assert(e.wfVal(vv.T, mt.Elem(), st.alloc))
		f.set(x, Val{Tuple: []Val{vv, {T: present, Typ: types.Typ[types.Bool]}}})
		return
	}
	r := f.bind(x, v)
	e.assert(e.wfVal(r.T, mt.Elem(), st.alloc))
}

func (f *Frame) mapUpdate(x *ssa.MapUpdate, st *State) {
	e := f.e
	mt := x.Map.Type().Underlying().(*types.Map)
	n, vsort, psort := f.mapHeap(mt)
	mv, kv, vv := f.val(x.Map), f.val(x.Key), f.val(x.Value)
	vals := e.getHeap(st, n+"_v", vsort)
	pres := e.getHeap(st, n+"_p", psort)
	e.setHeap(st, n+"_v", vsort, fmt.Sprintf("(store %s %s (store (select %s %s) %s %s))", vals, mv.T, vals, mv.T, kv.T, vv.T))
	e.setHeap(st, n+"_p", psort, fmt.Sprintf("(store %s %s (store (select %s %s) %s true))", pres, mv.T, pres, mv.T, kv.T))
	ln := e.getHeap(st, n+"_n", "(Array Int Int)")
	e.setHeap(st, n+"_n", "(Array Int Int)", fmt.Sprintf("(store %s %s (ite (select (select %s %s) %s) (select %s %s) (+ (select %s %s) 1)))", ln, mv.T, pres, mv.T, kv.T, ln, mv.T, ln, mv.T))
}

// ---------- arithmetic ----------

func isString(t types.Type) bool {
	b, ok := t.Underlying().(*types.Basic)
	return ok && b.Info()&types.IsString != 0
}

func isInteger(t types.Type) bool {
	b, ok := t.Underlying().(*types.Basic)
	return ok && b.Info()&types.IsInteger != 0
}

func (f *Frame) binop(x *ssa.BinOp, guard string) {
	a, b := f.val(x.X), f.val(x.Y)
	t := x.X.Type()
	rt := x.Type()
	switch x.Op {
	case token.EQL, token.NEQ:
		var c string
		if at, ok := isArray(t); ok && at.Len() <= 8 {
			var cs []string
			for i := int64(0); i < at.Len(); i++ {
				cs = append(cs, fmt.Sprintf("(= (select %s %d) (select %s %d))", a.T, i, b.T, i))
			}
			c = and(cs...)
		} else {
			c = eq(a.T, b.T)
		}
		if x.Op == token.NEQ {
			c = not(c)
		}
		f.bind(x, c)
		return
	case token.LSS, token.LEQ, token.GTR, token.GEQ:
		if isString(t) {
			var c string
			switch x.Op {
			case token.LSS:
				c = fmt.Sprintf("(slt %s %s)", a.T, b.T)
			case token.GTR:
				c = fmt.Sprintf("(slt %s %s)", b.T, a.T)
			case token.LEQ:
				c = fmt.Sprintf("(not (slt %s %s))", b.T, a.T)
			case token.GEQ:
				c = fmt.Sprintf("(not (slt %s %s))", a.T, b.T)
			}
			f.bind(x, c)
			return
		}
		op := map[token.Token]string{token.LSS: "<", token.LEQ: "<=", token.GTR: ">", token.GEQ: ">="}[x.Op]
		f.bind(x, fmt.Sprintf("(%s %s %s)", op, a.T, b.T))
		return
	}
	if isString(t) && x.Op == token.ADD {
		f.bind(x, fmt.Sprintf("(scat %s %s)", a.T, b.T))
		return
	}
	if bt, ok := t.Underlying().(*types.Basic); ok && bt.Info()&types.IsBoolean != 0 {
		switch x.Op {
		case token.AND, token.LAND:
			f.bind(x, and(a.T, b.T))
		case token.OR, token.LOR:
			f.bind(x, or(a.T, b.T))
		default:
			f.set(x, f.freshVal(x.Name(), rt))
		}
		return
	}
	if !isInteger(rt) {
		f.set(x, f.freshVal(x.Name(), rt))
		return
	}
	f.bind(x, f.intOp(x, x.Op, a.T, b.T, rt, x.Y, guard))
}

func constInt(v ssa.Value) (int64, bool) {
	c, ok := v.(*ssa.Const)
	if !ok || c.Value == nil {
		return 0, false
	}
	if !isInteger(c.Type()) {
		return 0, false
	}
	u := c.Uint64()
	if c.Int64() >= 0 {
		return c.Int64(), true
	}
	_ = u
	return c.Int64(), true
}

func constUint(v ssa.Value) (uint64, bool) {
	c, ok := v.(*ssa.Const)
	if !ok || c.Value == nil || !isInteger(c.Type()) {
		return 0, false
	}
	return c.Uint64(), true
}

func (f *Frame) intOp(in ssa.Instruction, op token.Token, a, b string, rt types.Type, y ssa.Value, guard string) string {
	e := f.e
	_ = e
	_, _, bits, signed, _ := intRange(rt)
	switch op {
	case token.ADD:
		return wrapNear(fmt.Sprintf("(+ %s %s)", a, b), rt)
	case token.SUB:
		return wrapNear(fmt.Sprintf("(- %s %s)", a, b), rt)
	case token.MUL:
		return wrapTo(fmt.Sprintf("(* %s %s)", a, b), rt)
	case token.QUO, token.REM:
		f.rtCheck("divzero", in, guard, fmt.Sprintf("(not (= %s 0))", b), describe(in))
		q := fmt.Sprintf("(div %s %s)", a, b)
		r := fmt.Sprintf("(mod %s %s)", a, b)
		if signed {
			// Go truncates toward zero
			q = fmt.Sprintf("(ite (>= %s 0) (ite (> %s 0) (div %s %s) (- (div %s (- %s)))) (ite (> %s 0) (- (div (- %s) %s)) (div (- %s) (- %s))))", a, b, a, b, a, b, b, a, b, a, b)
			r = fmt.Sprintf("(- %s (* %s %s))", a, b, q)
			if op == token.QUO {
				return wrapTo(q, rt)
			}
			return r
		}
		if op == token.QUO {
			return q
		}
		return r
	case token.SHL:
		if k, ok := constUint(y); ok {
			if int(k) >= bits {
				return "0"
			}
			return wrapTo(fmt.Sprintf("(* %s %s)", a, pow2(int(k))), rt)
		}
		e.note("shift by a non-constant amount is uninterpreted")
		return f.uninterp("shl", a, b, rt)
	case token.SHR:
		if k, ok := constUint(y); ok {
			if int(k) >= bits {
				if signed {
					return fmt.Sprintf("(ite (< %s 0) (- 1) 0)", a)
				}
				return "0"
			}
			return fmt.Sprintf("(div %s %s)", a, pow2(int(k)))
		}
		e.note("shift by a non-constant amount is uninterpreted")
		return f.uninterp("shr", a, b, rt)
	case token.AND:
		if k, ok := constUint(y); ok && !signed {
			return andConst(a, k)
		}
		if k, ok := constInt(y); ok && k >= 0 {
			// signed operand with nonneg mask: valid for nonneg a; for negative a two's complement: use mod on wrapped value
			return andConst(fmt.Sprintf("(mod %s %s)", a, pow2(bits)), uint64(k))
		}
		return f.bitUF("band", a, b, rt)
	case token.OR:
		return f.bitUF("bor", a, b, rt)
	case token.XOR:
		return f.bitUF("bxor", a, b, rt)
	case token.AND_NOT:
		return f.uninterp("bandnot", a, b, rt)
	}
	e.errorf("int op %v unsupported", op)
	return f.uninterp("op", a, b, rt)
}

// andConst: x & k for unsigned x and constant k
func andConst(a string, k uint64) string {
	if k == 0 {
		return "0"
	}
	// contiguous low mask 2^n-1
	if k&(k+1) == 0 {
		n := 0
		for (k>>uint(n))&1 == 1 && n < 64 {
			n++
		}
		return fmt.Sprintf("(mod %s %s)", a, pow2(n))
	}
	// general: sum of contiguous runs
	var parts []string
	i := 0
	for i < 64 {
		if (k>>uint(i))&1 == 0 {
			i++
			continue
		}
		j := i
		for j < 64 && (k>>uint(j))&1 == 1 {
			j++
		}
		// bits [i,j)
		parts = append(parts, fmt.Sprintf("(* (mod (div %s %s) %s) %s)", a, pow2(i), pow2(j-i), pow2(i)))
		i = j
	}
	if len(parts) == 1 {
		return parts[0]
	}
	return "(+ " + strings.Join(parts, " ") + ")"
}

func (f *Frame) uninterp(name, a, b string, rt types.Type) string {
	e := f.e
	fn := "uf_" + name
	e.declFun(fn, []string{sInt, sInt}, sInt)
	t := fmt.Sprintf("(%s %s %s)", fn, a, b)
	if rc := e.tt().rangeConstraint(t, rt); rc != "" {
		e.assert(rc)
	}
	return t
}

// bitUF: bor/band/bxor with disjoint-bits lemma instances
func (f *Frame) bitUF(name, a, b string, rt types.Type) string {
	e := f.e
	t := fmt.Sprintf("(%s %s %s)", name, a, b)
	if rc := e.tt().rangeConstraint(t, rt); rc != "" {
		e.assert(rc)
	}
	_, _, bits, signed, _ := intRange(rt)
	if name == "bor" && !signed {
		for _, k := range []int{3, 5, 7, 8, 16, 24, 32} {
			if k >= bits {
				continue
			}
			m := pow2(k)
			e.assert(fmt.Sprintf("(=> (and (= (mod %s %s) 0) (<= 0 %s) (< %s %s)) (= %s (+ %s %s)))", a, m, b, b, m, t, a, b))
			e.assert(fmt.Sprintf("(=> (and (= (mod %s %s) 0) (<= 0 %s) (< %s %s)) (= %s (+ %s %s)))", b, m, a, a, m, t, a, b))
		}
		e.assert(fmt.Sprintf("(and (>= %s %s) (>= %s %s) (<= %s (+ %s %s)))", t, a, t, b, t, a, b))
	}
	if name == "band" && !signed {
		e.assert(fmt.Sprintf("(and (<= %s %s) (<= %s %s) (>= %s 0))", t, a, t, b, t))
	}
	return t
}

func (f *Frame) convert(x *ssa.Convert, guard string, st *State) {
	e := f.e
	xv := f.val(x.X)
	from, to := x.X.Type(), x.Type()
	switch {
	case isInteger(from) && isInteger(to):
		flo, fhi, _, _, _ := intRange(from)
		tlo, thi, _, _, _ := intRange(to)
		if flo.Cmp(tlo) >= 0 && fhi.Cmp(thi) <= 0 {
			f.bind(x, xv.T)
		} else {
			f.bind(x, wrapTo(xv.T, to))
		}
	case isString(to):
		if sl, ok := from.Underlying().(*types.Slice); ok {
			// string([]byte): the uninterpreted constructor str_of(array, offset, length) with its two defining axioms
			hn, hs := e.elemHeap(sl.Elem())
			arr := e.define("cva", "(Array Int Int)", fmt.Sprintf("(select %s (s-ref %s))", e.getHeap(st, hn, hs), xv.T))
			e.needStrOf()
			f.bind(x, fmt.Sprintf("(str_of %s (s-off %s) (s-len %s))", arr, xv.T, xv.T))
		} else {
			f.set(x, f.freshVal(x.Name(), to))
		}
	case isString(from):
		if sl, ok := to.Underlying().(*types.Slice); ok {
			r := e.newRef(st, "s2b")
			hn, hs := e.elemHeap(sl.Elem())
			arr := e.fresh("s2b_arr", "(Array Int Int)")
			e.assert(fmt.Sprintf("(forall ((k Int)) (! (=> (and (<= 0 k) (< k (slen %s))) (= (select %s k) (sat %s k))) :pattern ((select %s k))))", xv.T, arr, xv.T, arr))
			e.setHeap(st, hn, hs, fmt.Sprintf("(store %s %s %s)", e.getHeap(st, hn, hs), r, arr))
			e.declFun("bstr", []string{sInt}, sStr)
			e.assert(fmt.Sprintf("(= (bstr %s) %s)", r, xv.T))
			f.bind(x, fmt.Sprintf("(mk-slice %s 0 (slen %s) (slen %s))", r, xv.T, xv.T))
		} else {
			f.set(x, f.freshVal(x.Name(), to))
		}
	default:
		if e.tt().sortOf(from) == e.tt().sortOf(to) {
			f.bind(x, xv.T)
		} else {
			f.set(x, f.freshVal(x.Name(), to))
		}
	}
}
