package main

// Verification of one function against its contract.

import (
	"fmt"
	"go/types"
	"strings"

	"golang.org/x/tools/go/ssa"
)

type FuncResult struct {
	Name  string
	Enc   *Enc
	Obls  []*Obl
	Errs  []string
	Notes []string
}

// verifyFuncViews verifies a function once per proof view of its contract.
func (p *Program) verifyFuncViews(name string) []*FuncResult {
	ct := p.CS.Funcs[name]
	if ct == nil {
		return []*FuncResult{p.verifyFunc(name, "")}
	}
	var out []*FuncResult
	for _, v := range ct.views() {
		out = append(out, p.verifyFunc(name, v))
	}
	return out
}

func (p *Program) verifyFunc(name string, view string) *FuncResult {
	res := &FuncResult{Name: name}
	fn := p.Funcs[name]
	if fn == nil {
		res.Errs = append(res.Errs, fmt.Sprintf("contract for %s does not bind: no such function in the package", name))
		return res
	}
	ct := p.CS.Funcs[name]
	e := newEnc(p, name)
	e.view = view
	res.Enc = e
	if view == "" {
		lastEnc[name] = e
	} else {
		res.Name = name + "@" + view
	}
	defer func() {
		if r := recover(); r != nil {
			res.Errs = append(res.Errs, fmt.Sprintf("internal error while encoding %s: %v", name, r))
			panic(r)
		}
	}()
	f := e.newFrame(fn, nil)
	f.top = true
	e.topFn = fn
	if ct != nil {
		f.noPanic = ct.NoPanic
		f.npProps = ct.NoPanicP
		if len(f.npProps) == 0 {
			f.npProps = ct.Props
		}
	}
	e.decl("alloc0", sInt)
	e.assert(fmt.Sprintf("(and (>= alloc0 64) (< alloc0 %s))", pow2(embBase-2)))
	st := &State{heaps: map[string]string{}, alloc: "alloc0"}
	var args []Val
	for i, prm := range fn.Params {
		v := f.freshVal("p_"+prm.Name(), prm.Type())
		v.Typ = prm.Type()
		e.assert(e.wfVal(v.T, prm.Type(), "alloc0"))
		// input-size bound used by the allocation obligations (make sizes must be linear in input sizes)
		if _, ok := prm.Type().Underlying().(*types.Slice); ok {
			e.assert(fmt.Sprintf("(<= (s-cap %s) alim)", v.T))
		} else if isString(prm.Type()) {
			e.assert(fmt.Sprintf("(<= (slen %s) alim)", v.T))
		}
		if i == 0 && fn.Signature.Recv() != nil {
			if _, ok := prm.Type().Underlying().(*types.Pointer); ok {
				e.assert(fmt.Sprintf("(not (= %s 0))", v.T))
			}
		}
		args = append(args, v)
		f.vals[prm] = v
	}
	f.entry = st.clone()
	f.alloc0 = st.alloc
	// axioms (definitions of opaque spec functions and assumed lemmas; listed in the evidence)
	for _, ax := range p.CS.Axioms {
		if ax.Lemma {
			continue
		}
		env := &specEnv{f: f, st: st, old: st, noProgram: true, callSite: true}
		e.assert(f.specBool(ax.Expr, env))
	}
	if ct != nil {
		env := &specEnv{f: f, st: st, old: st}
		if len(ct.GhostParams) > 0 {
			// the function's own ghost (witness) parameters are arbitrary values while it is verified
			env.names = map[string]Val{}
			for _, g := range ct.GhostParams {
				env.names[g] = Val{T: e.fresh("ghostparam_"+g, sInt), Typ: mathInt}
			}
		}
		var reqs []string
		for _, rq := range ct.Requires {
			t := f.specBool(rq.Expr, env)
			e.assert(t)
			reqs = append(reqs, t)
		}
		e.cover(name+":vacuity:requires-satisfiable", ct.Props, "true")
	}
	f.useLemmas("true", st)
	// C19: a function on the shared-reader read path may not name shared reader state in its frame
	if ct != nil && hasProp(ct.Props, "C19") && ct.HasMod && e.primary() {
		for h := range f.frameTargets() {
			for _, pre := range []string{"F_Reader_", "F_Merged_", "F_blockReader_", "F_fileBlockSource_", "F_ByteBlockSource_", "G_", "F_header_", "F_footer_"} {
				if strings.HasPrefix(h, pre) {
					e.oblige("frame", fmt.Sprintf("%s:race:modifies-shared-state:%s", name, h), []string{"C19"}, "true", "false", p.pos(fn.Pos()), "the modifies clause of a read-path function names shared reader state")
				}
			}
		}
	}
	results, exit, retGuard := f.run("true", st, args)
	_ = results
	if exit != nil && ct != nil {
		// ghost assignments at return ("sets")
		for _, sc := range ct.Sets {
			for _, r := range f.rets {
				e.curBlock = r.block
				env := &specEnv{f: f, st: r.state, old: f.entry, results: r.results}
				sortS := p.ghostSort(sc.Ghost)
				nv := f.specTerm(sc.Expr, env)
				prev := e.getHeap(r.state, "ghost_"+sc.Ghost, sortS)
				if sc.Key != nil {
					nv.T = fmt.Sprintf("(store %s %s %s)", prev, f.specTerm(sc.Key, env).T, nv.T)
				}
				val := nv.T
				if sc.Cond != nil {
					val = ite(f.specBool(sc.Cond, env), nv.T, prev)
				}
				e.setHeap(r.state, "ghost_"+sc.Ghost, sortS, val)
			}
		}
		// each postcondition is checked separately at every return site (no merged exit state in the VC)
		for _, en := range ct.Ensures {
			if ct.CheckCalls && !en.Checked {
				continue // postconditions of a checkcalls contract stay assumed, except its "proves" clauses
			}
			if en.Assumed || !e.inView(en) || (en.View == "" && !e.primary()) {
				continue
			}
			for _, r := range f.rets {
				e.curBlock = r.block
				env := &specEnv{f: f, st: r.state, old: f.entry, results: r.results}
				t := f.specBool(en.Expr, env)
				name := fmt.Sprintf("%s:ensures:%s", name, clauseName(en))
				if len(f.rets) > 1 {
					name += fmt.Sprintf("@b%d", r.block)
				}
				e.oblige("ensures", name, f.clauseProps(en), r.guard, t, p.pos(fn.Pos()), en.Text)
			}
		}
		e.curBlock = -1
		if len(ct.Ensures) > 0 {
			e.cover(name+":vacuity:return-reachable", ct.Props, retGuard)
		}
	}
	res.Obls = e.obls
	res.Errs = append(res.Errs, e.errs...)
	res.Notes = sortedNotes(e.notes)
	return res
}

// special harness calls: vAssume / vAssert in lemma functions
func init() {
	// registered lazily in calls via name check
}

func isVAssume(name string) bool { return name == "vAssume" }
func isVAssert(name string) bool { return name == "vAssert" }

func (f *Frame) harnessCall(in ssa.Instruction, callee *ssa.Function, guard string, args []Val) (Val, bool) {
	name := callee.Name()
	switch {
	case isVAssume(name):
		f.e.assume(guard, args[0].T)
		return Val{T: "0"}, true
	case isVAssert(name):
		top := f.topFrame()
		var props []string
		if top.contract != nil {
			props = top.contract.Props
		}
		label := ""
		if len(args) > 1 {
			label = args[1].T
			for k, v := range f.e.strLits {
				if v == label {
					label = k
				}
			}
		}
		f.e.oblige("assert", fmt.Sprintf("%s:assert:%s", strings.Join(f.stack, ">"), label), props, guard, args[0].T, f.pos(in.Pos()), "")
		return Val{T: "0"}, true
	}
	return Val{}, false
}

// useLemmas: for every lemma function named in the `use` clause of the function under verification, assume its
// contract, universally quantified over its parameters, in the given state. Sound because the lemma function is
// itself verified for all parameters and all states and writes nothing.
func (f *Frame) useLemmas(guard string, st *State) {
	top := f.topFrame()
	if top.contract == nil || len(top.contract.Uses) == 0 {
		return
	}
	e := f.e
	for _, ln := range top.contract.Uses {
		lc := e.P.CS.Funcs[ln]
		lf := e.P.Funcs[ln]
		if lc == nil || lf == nil {
			e.errorf("use %s: no such lemma function/contract", ln)
			continue
		}
		if !lc.Pure {
			e.errorf("use %s: lemma functions must be pure", ln)
			continue
		}
		env := &specEnv{f: f, st: st, old: st, bound: map[string]Val{}, seqs: map[string]*seqView{}, callSite: true, names: map[string]Val{}}
		// build "forall params :: requires ==> ensures" and translate it like any contract quantifier
		var vars []SVar
		for _, prm := range lf.Params {
			vars = append(vars, SVar{prm.Name(), e.tt().typeString(prm.Type())})
		}
		var pre, post SExpr = SBool{true}, SBool{true}
		for _, r := range lc.Requires {
			pre = SBin{"&&", pre, r.Expr}
		}
		for _, en := range lc.Ensures {
			post = SBin{"&&", post, en.Expr}
		}
		q := SQuant{Forall: true, Vars: vars, Body: SBin{"==>", pre, post}}
		e.assume(guard, f.specBool(q, env))
	}
}
