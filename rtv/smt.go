package main

// SMT layer: sorts, Go-type -> sort mapping, prelude, term helpers.

import (
	"fmt"
	"go/types"
	"math/big"
	"sort"
	"strings"
)

const (
	sInt   = "Int"
	sBool  = "Bool"
	sStr   = "Str"
	sSlice = "Slice"
	sIface = "Iface"
)

// TypeTable assigns SMT sorts / datatypes / tags to Go types. One per run.
type TypeTable struct {
	structSort  map[string]string        // types.TypeString -> datatype name
	structDecl  []string                 // datatype declarations in dependency order
	structInfo  map[string]*types.Struct // datatype name -> struct
	structNamed map[string]string        // datatype name -> printable go name
	tags        map[string]int           // dynamic type string -> tag
	tagNames    []string
	embSites    map[string]int // "T.f" -> bit index
	zeroArrs    map[string]string
	zeroDecls   []string
	qual        types.Qualifier
}

func newTypeTable(pkg *types.Package) *TypeTable {
	return &TypeTable{
		structSort:  map[string]string{},
		structInfo:  map[string]*types.Struct{},
		structNamed: map[string]string{},
		tags:        map[string]int{},
		embSites:    map[string]int{},
		zeroArrs:    map[string]string{},
		qual:        types.RelativeTo(pkg),
	}
}

func (tt *TypeTable) typeString(t types.Type) string {
	s := types.TypeString(t, tt.qual)
	// byte and uint8 (rune and int32) are the same type and must share one heap
	s = strings.ReplaceAll(s, "byte", "uint8")
	s = strings.ReplaceAll(s, "rune", "int32")
	return s
}

func sanitize(s string) string {
	var b strings.Builder
	for _, r := range s {
		switch {
		case r >= 'a' && r <= 'z', r >= 'A' && r <= 'Z', r >= '0' && r <= '9', r == '_':
			b.WriteRune(r)
		case r == '*':
			b.WriteString("P")
		case r == '[' || r == ']':
			b.WriteString("A")
		case r == '.':
			b.WriteString("_")
		default:
			b.WriteString("_")
		}
	}
	return b.String()
}

func (tt *TypeTable) tagOf(t types.Type) int {
	k := tt.typeString(t)
	if id, ok := tt.tags[k]; ok {
		return id
	}
	id := len(tt.tags) + 10 // tags 1..9 are reserved (1: package error values, 2: errors made by fmt.Errorf / errors.New)
	tt.tags[k] = id
	tt.tagNames = append(tt.tagNames, k)
	return id
}

// embBit returns the embedding bit for struct-typed field f of struct named tn.
func (tt *TypeTable) embBit(tn string, f int) int {
	k := fmt.Sprintf("%s.%d", tn, f)
	if b, ok := tt.embSites[k]; ok {
		return b
	}
	b := len(tt.embSites)
	tt.embSites[k] = b
	return b
}

const embBase = 40 // base refs live below 2^40

func pow2(n int) string {
	return new(big.Int).Lsh(big.NewInt(1), uint(n)).String()
}

// sortOf maps a Go type to its SMT sort.
func (tt *TypeTable) sortOf(t types.Type) string {
	switch u := t.Underlying().(type) {
	case *types.Basic:
		switch {
		case u.Info()&types.IsBoolean != 0:
			return sBool
		case u.Info()&types.IsString != 0:
			return sStr
		case u.Info()&types.IsInteger != 0:
			return sInt
		case u.Kind() == types.UnsafePointer, u.Kind() == types.UntypedNil:
			return sInt
		case u.Info()&types.IsFloat != 0:
			return "Real"
		}
		return sInt
	case *types.Pointer, *types.Map, *types.Chan, *types.Signature:
		return sInt
	case *types.Slice:
		return sSlice
	case *types.Interface:
		return sIface
	case *types.Array:
		return "(Array Int " + tt.sortOf(u.Elem()) + ")"
	case *types.Struct:
		return tt.structSortOf(t, u)
	case *types.Tuple:
		return "TUPLE"
	}
	return sInt
}

func (tt *TypeTable) structName(t types.Type) string {
	if n, ok := t.(*types.Named); ok {
		return sanitize(tt.typeString(n))
	}
	if a, ok := t.(*types.Alias); ok {
		return tt.structName(types.Unalias(a))
	}
	return "anon_" + sanitize(tt.typeString(t))
}

func (tt *TypeTable) structSortOf(t types.Type, st *types.Struct) string {
	key := tt.typeString(t)
	if s, ok := tt.structSort[key]; ok {
		return s
	}
	name := "S_" + tt.structName(t)
	tt.structSort[key] = name
	tt.structInfo[name] = st
	tt.structNamed[name] = tt.structName(t)
	var fields []string
	for i := 0; i < st.NumFields(); i++ {
		fs := tt.sortOf(st.Field(i).Type()) // declares nested first
		fields = append(fields, fmt.Sprintf("(%s_%d %s)", name, i, fs))
	}
	if len(fields) == 0 {
		tt.structDecl = append(tt.structDecl, fmt.Sprintf("(declare-datatypes ((%s 0)) (((mk_%s))))", name, name))
	} else {
		tt.structDecl = append(tt.structDecl, fmt.Sprintf("(declare-datatypes ((%s 0)) (((mk_%s %s))))", name, name, strings.Join(fields, " ")))
	}
	return name
}

// zero value term for a Go type
func (tt *TypeTable) zero(t types.Type) string {
	switch u := t.Underlying().(type) {
	case *types.Basic:
		switch {
		case u.Info()&types.IsBoolean != 0:
			return "false"
		case u.Info()&types.IsString != 0:
			return "str_empty"
		}
		return "0"
	case *types.Slice:
		return "(mk-slice 0 0 0 0)"
	case *types.Interface:
		return "(mk-iface 0 0)"
	case *types.Array:
		return tt.zeroArray(tt.sortOf(u.Elem()), tt.zero(u.Elem()))
	case *types.Struct:
		name := tt.structSortOf(t, u)
		if u.NumFields() == 0 {
			return "mk_" + name
		}
		var fs []string
		for i := 0; i < u.NumFields(); i++ {
			fs = append(fs, tt.zero(u.Field(i).Type()))
		}
		return fmt.Sprintf("(mk_%s %s)", name, strings.Join(fs, " "))
	}
	return "0"
}

// intRange returns (lo, hi, bits, signed) for an integer type.
func intRange(t types.Type) (lo, hi *big.Int, bits int, signed bool, ok bool) {
	b, isB := t.Underlying().(*types.Basic)
	if !isB || b.Info()&types.IsInteger == 0 {
		return nil, nil, 0, false, false
	}
	switch b.Kind() {
	case types.Int8:
		bits, signed = 8, true
	case types.Int16:
		bits, signed = 16, true
	case types.Int32:
		bits, signed = 32, true
	case types.Int, types.Int64, types.UntypedInt, types.UntypedRune:
		bits, signed = 64, true
	case types.Uint8:
		bits = 8
	case types.Uint16:
		bits = 16
	case types.Uint32:
		bits = 32
	case types.Uint, types.Uint64, types.Uintptr:
		bits = 64
	default:
		bits, signed = 64, true
	}
	one := big.NewInt(1)
	if signed {
		hi = new(big.Int).Sub(new(big.Int).Lsh(one, uint(bits-1)), one)
		lo = new(big.Int).Neg(new(big.Int).Lsh(one, uint(bits-1)))
	} else {
		lo = big.NewInt(0)
		hi = new(big.Int).Sub(new(big.Int).Lsh(one, uint(bits)), one)
	}
	return lo, hi, bits, signed, true
}

func smtInt(v *big.Int) string {
	if v.Sign() < 0 {
		return "(- " + new(big.Int).Neg(v).String() + ")"
	}
	return v.String()
}

// rangeConstraint returns the typing constraint for term x of Go type t ("" if none).
func (tt *TypeTable) rangeConstraint(x string, t types.Type) string {
	switch u := t.Underlying().(type) {
	case *types.Basic:
		if u.Info()&types.IsString != 0 {
			return ""
		}
		if lo, hi, _, _, ok := intRange(t); ok {
			return fmt.Sprintf("(and (<= %s %s) (<= %s %s))", smtInt(lo), x, x, smtInt(hi))
		}
	case *types.Slice:
		return fmt.Sprintf("(wf-slice %s)", x)
	case *types.Interface:
		return fmt.Sprintf("(wf-iface %s)", x)
	case *types.Pointer, *types.Map, *types.Signature, *types.Chan:
		return fmt.Sprintf("(>= %s 0)", x)
	}
	return ""
}

// wrap returns x wrapped into the range of integer type t.
func wrapTo(x string, t types.Type) string {
	lo, _, bits, signed, ok := intRange(t)
	if !ok {
		return x
	}
	m := pow2(bits)
	if !signed {
		return fmt.Sprintf("(mod %s %s)", x, m)
	}
	h := new(big.Int).Neg(lo).String()
	return fmt.Sprintf("(- (mod (+ %s %s) %s) %s)", x, h, m, h)
}

// wrapAddSub: cheaper ite-form, valid when x is within one modulus of range (a+b, a-b of in-range operands)
func wrapNear(x string, t types.Type) string {
	lo, hi, bits, _, ok := intRange(t)
	if !ok {
		return x
	}
	m := pow2(bits)
	return fmt.Sprintf("(let ((wr__ %s)) (ite (> wr__ %s) (- wr__ %s) (ite (< wr__ %s) (+ wr__ %s) wr__)))", x, smtInt(hi), m, smtInt(lo), m)
}

func and(xs ...string) string {
	var ys []string
	for _, x := range xs {
		if x == "" || x == "true" {
			continue
		}
		ys = append(ys, x)
	}
	switch len(ys) {
	case 0:
		return "true"
	case 1:
		return ys[0]
	}
	return "(and " + strings.Join(ys, " ") + ")"
}

func or(xs ...string) string {
	var ys []string
	for _, x := range xs {
		if x == "" || x == "false" {
			continue
		}
		ys = append(ys, x)
	}
	switch len(ys) {
	case 0:
		return "false"
	case 1:
		return ys[0]
	}
	return "(or " + strings.Join(ys, " ") + ")"
}

func not(x string) string {
	if x == "true" {
		return "false"
	}
	if x == "false" {
		return "true"
	}
	if strings.HasPrefix(x, "(not ") && balancedOne(x[5:len(x)-1]) {
		return x[5 : len(x)-1]
	}
	return "(not " + x + ")"
}

func balancedOne(s string) bool {
	// true if s is a single s-expression
	depth := 0
	for i, c := range s {
		switch c {
		case '(':
			depth++
		case ')':
			depth--
			if depth == 0 && i != len(s)-1 {
				return false
			}
		case ' ':
			if depth == 0 {
				return false
			}
		}
	}
	return depth == 0
}

func implies(a, b string) string {
	if a == "true" {
		return b
	}
	if b == "true" {
		return "true"
	}
	return "(=> " + a + " " + b + ")"
}

func ite(c, a, b string) string {
	if c == "true" {
		return a
	}
	if c == "false" {
		return b
	}
	if a == b {
		return a
	}
	return "(ite " + c + " " + a + " " + b + ")"
}

func eq(a, b string) string { return "(= " + a + " " + b + ")" }

const prelude = `(set-option :produce-models true)
(set-logic ALL)
(declare-sort Str 0)
(declare-datatypes ((Slice 0)) (((mk-slice (s-ref Int) (s-off Int) (s-len Int) (s-cap Int)))))
(declare-datatypes ((Iface 0)) (((mk-iface (i-tag Int) (i-ref Int)))))
(define-fun wf-slice ((s Slice)) Bool (and (>= (s-ref s) 0) (>= (s-off s) 0) (>= (s-len s) 0) (>= (s-cap s) (s-len s)) (< (+ (s-off s) (s-cap s)) 4611686018427387904) (=> (= (s-ref s) 0) (and (= (s-off s) 0) (= (s-cap s) 0)))))
(define-fun wf-iface ((i Iface)) Bool (and (>= (i-tag i) 0) (>= (i-ref i) 0) (=> (= (i-tag i) 0) (= (i-ref i) 0))))
(define-fun base ((r Int)) Int (mod r 1099511627776))
(declare-fun slen (Str) Int)
(declare-fun sat (Str Int) Int)
(declare-const str_empty Str)
(assert (= (slen str_empty) 0))
(assert (forall ((s Str)) (! (and (>= (slen s) 0) (< (slen s) 1152921504606846976)) :pattern ((slen s)))))
(assert (forall ((s Str)) (! (=> (= (slen s) 0) (= s str_empty)) :pattern ((slen s)))))
(assert (forall ((s Str) (k Int)) (! (and (<= 0 (sat s k)) (<= (sat s k) 255)) :pattern ((sat s k)))))
(declare-const alim Int)
(assert (and (>= alim 16777216) (< alim 1152921504606846976)))
(declare-fun slt (Str Str) Bool)
(declare-fun scat (Str Str) Str)
(declare-fun ssub (Str Int Int) Str)
(declare-fun bor (Int Int) Int)
(declare-fun band (Int Int) Int)
(declare-fun bxor (Int Int) Int)
(declare-fun is-exist (Iface) Bool)
(declare-fun is-notexist (Iface) Bool)
(assert (not (is-exist (mk-iface 0 0))))
(assert (not (is-notexist (mk-iface 0 0))))
`

// slt axioms, emitted only if the VC mentions slt
const sltAxioms = `(assert (forall ((a Str)) (! (not (slt a a)) :pattern ((slt a a)))))
(assert (forall ((a Str) (b Str)) (! (=> (slt a b) (not (slt b a))) :pattern ((slt a b)))))
(assert (forall ((a Str) (b Str)) (! (or (slt a b) (slt b a) (= a b)) :pattern ((slt a b)))))
(assert (forall ((a Str) (b Str) (c Str)) (! (=> (and (slt a b) (slt b c)) (slt a c)) :pattern ((slt a b) (slt b c)))))
(assert (forall ((a Str)) (! (or (= a str_empty) (slt str_empty a)) :pattern ((slt str_empty a)))))
(assert (forall ((a Str)) (! (not (slt a str_empty)) :pattern ((slt a str_empty)))))
`

// scat / ssub axioms
const strOpAxioms = `(assert (forall ((a Str) (b Str)) (! (= (slen (scat a b)) (+ (slen a) (slen b))) :pattern ((scat a b)))))
(assert (forall ((a Str) (b Str) (k Int)) (! (= (sat (scat a b) k) (ite (< k (slen a)) (sat a k) (sat b (- k (slen a))))) :pattern ((sat (scat a b) k)))))
(assert (forall ((a Str) (i Int) (j Int)) (! (=> (and (<= 0 i) (<= i j) (<= j (slen a))) (= (slen (ssub a i j)) (- j i))) :pattern ((ssub a i j)))))
(assert (forall ((a Str) (i Int) (j Int) (k Int)) (! (=> (and (<= 0 i) (<= i j) (<= j (slen a)) (<= 0 k) (< k (- j i))) (= (sat (ssub a i j) k) (sat a (+ i k)))) :pattern ((sat (ssub a i j) k)))))
(assert (forall ((a Str)) (! (= (scat a str_empty) a) :pattern ((scat a str_empty)))))
(assert (forall ((a Str)) (! (= (scat str_empty a) a) :pattern ((scat str_empty a)))))
(assert (forall ((a Str)) (! (= (ssub a 0 (slen a)) a) :pattern ((ssub a 0 (slen a))))))
`

func sortedKeys[V any](m map[string]V) []string {
	ks := make([]string, 0, len(m))
	for k := range m {
		ks = append(ks, k)
	}
	sort.Strings(ks)
	return ks
}

// zeroArray: the all-zero array with the given element sort. Constant arrays need a value as element (cvc5 rejects
// uninterpreted constants such as str_empty), so for other element sorts a named array with a defining axiom is used.
func (tt *TypeTable) zeroArray(elemSort, elemZero string) string {
	if elemSort == sInt || elemSort == sBool {
		return fmt.Sprintf("((as const (Array Int %s)) %s)", elemSort, elemZero)
	}
	if n, ok := tt.zeroArrs[elemSort]; ok {
		return n
	}
	n := fmt.Sprintf("zero_arr_%d", len(tt.zeroArrs))
	tt.zeroArrs[elemSort] = n
	tt.zeroDecls = append(tt.zeroDecls, fmt.Sprintf("(declare-const %s (Array Int %s))", n, elemSort),
		fmt.Sprintf("(assert (forall ((k Int)) (! (= (select %s k) %s) :pattern ((select %s k)))))", n, elemZero, n))
	return n
}
