package main

// Solver portfolio.

import (
	"bytes"
	"context"
	"fmt"
	"os"
	"os/exec"
	"path/filepath"
	"regexp"
	"strings"
	"sync"
	"time"
)

type Solver struct {
	Name string
	Args func(timeoutS int, file string, seed int) []string
}

var solvers = []Solver{
	{"z3-new", func(t int, f string, seed int) []string {
		return []string{"z3-new", fmt.Sprintf("-T:%d", t), fmt.Sprintf("smt.random_seed=%d", seed), f}
	}},
	{"z3", func(t int, f string, seed int) []string {
		return []string{"z3", fmt.Sprintf("-T:%d", t), fmt.Sprintf("smt.random_seed=%d", seed), f}
	}},
	{"cvc5", func(t int, f string, seed int) []string {
		return []string{"cvc5", fmt.Sprintf("--tlimit=%d", t*1000), "--full-saturate-quant", fmt.Sprintf("--seed=%d", seed), f}
	}},
}

// seeds tried in turn when a back end gives up quickly with "unknown" (incomplete quantifier instantiation is
// seed-sensitive); fixed, so that runs are reproducible
var seedList = []int{1, 0, 7, 42}

type solveOut struct {
	result  string
	backend string
	secs    float64
	raw     string
}

func runSolver(s Solver, timeoutS int, file string) solveOut {
	return runSolverCtx(context.Background(), s, timeoutS, file)
}

func runSolverCtx(parent context.Context, s Solver, timeoutS int, file string) solveOut {
	var last solveOut
	total := 0.0
	for _, seed := range seedList {
		last = runSolverSeed(parent, s, timeoutS, file, seed)
		total += last.secs
		if last.result != "unknown" || total > float64(timeoutS)/2 || parent.Err() != nil {
			break
		}
	}
	last.secs = total
	return last
}

func runSolverSeed(parent context.Context, s Solver, timeoutS int, file string, seed int) solveOut {
	args := s.Args(timeoutS, file, seed)
	ctx, cancel := context.WithTimeout(parent, time.Duration(timeoutS+2)*time.Second)
	defer cancel()
	cmd := exec.CommandContext(ctx, args[0], args[1:]...)
	var out bytes.Buffer
	cmd.Stdout = &out
	cmd.Stderr = &out
	t0 := time.Now()
	cmd.Run()
	secs := time.Since(t0).Seconds()
	text := out.String()
	first := strings.TrimSpace(strings.SplitN(text, "\n", 2)[0])
	res := "unknown"
	switch {
	case first == "unsat":
		res = "unsat"
	case first == "sat":
		res = "sat"
	case strings.Contains(first, "timeout") || ctx.Err() != nil:
		res = "timeout"
	case strings.HasPrefix(first, "(error") || strings.Contains(text, "(error"):
		res = "error"
	}
	return solveOut{res, s.Name, secs, text}
}

// solveScript: staged portfolio. z3-new starts at once; if it has not answered after a short grace period the
// other back ends are started beside it. The first definitive answer (unsat/sat) wins and the rest are stopped.
func solveScript(script, dir, base string, timeoutS int) solveOut {
	file := filepath.Join(dir, base+".smt2")
	os.WriteFile(file, []byte(script), 0644)
	ctx, cancel := context.WithCancel(context.Background())
	defer cancel()
	ch := make(chan solveOut, len(solvers))
	t0 := time.Now()
	go func() { ch <- runSolverCtx(ctx, solvers[0], timeoutS, file) }()
	started := 1
	grace := time.NewTimer(1500 * time.Millisecond)
	defer grace.Stop()
	var best solveOut
	got := 0
	for got < started {
		select {
		case <-grace.C:
			for _, s := range solvers[1:] {
				s := s
				go func() { ch <- runSolverCtx(ctx, s, timeoutS, file) }()
				started++
			}
		case o := <-ch:
			got++
			if o.result == "unsat" || o.result == "sat" {
				o.secs = time.Since(t0).Seconds()
				return o
			}
			if got == 1 && started == 1 {
				// primary gave up early: start the others now
				grace.Stop()
				for _, s := range solvers[1:] {
					s := s
					go func() { ch <- runSolverCtx(ctx, s, timeoutS, file) }()
					started++
				}
			}
			if best.result == "" || (best.result == "error" && o.result != "error") || o.result == "timeout" {
				best = o
			}
		}
	}
	best.secs = time.Since(t0).Seconds()
	return best
}

// solveWide: every back end with three different seeds at once (used for the serial second chance, when the machine is
// otherwise idle): quantifier instantiation is sensitive to seeds and to symbol names, a wider net makes the outcome stable.
func solveWide(script, dir, base string, timeoutS int) solveOut {
	file := filepath.Join(dir, base+".smt2")
	os.WriteFile(file, []byte(script), 0644)
	ctx, cancel := context.WithCancel(context.Background())
	defer cancel()
	seeds := []int{1, 7, 42}
	ch := make(chan solveOut, len(solvers)*len(seeds))
	t0 := time.Now()
	for _, sv := range solvers {
		for _, sd := range seeds {
			sv, sd := sv, sd
			go func() { ch <- runSolverSeed(ctx, sv, timeoutS, file, sd) }()
		}
	}
	var best solveOut
	for i := 0; i < len(solvers)*len(seeds); i++ {
		o := <-ch
		if o.result == "unsat" || o.result == "sat" {
			o.secs = time.Since(t0).Seconds()
			return o
		}
		if best.result == "" || (best.result == "error" && o.result != "error") || o.result == "timeout" {
			best = o
		}
	}
	best.secs = time.Since(t0).Seconds()
	return best
}

func getModel(script, dir, base string, timeoutS int, backend string) string {
	file := filepath.Join(dir, base+".model.smt2")
	os.WriteFile(file, []byte(script+"(get-model)\n"), 0644)
	for _, s := range solvers {
		if s.Name == backend {
			o := runSolver(s, timeoutS, file)
			return o.raw
		}
	}
	return ""
}

// dischargeAll solves all obligations of the given function results in parallel.
func dischargeAll(frs []*FuncResult, dir string, timeoutS, par int, filter func(*Obl) bool) {
	type job struct {
		fr *FuncResult
		o  *Obl
		id int
	}
	var jobs []job
	id := 0
	for _, fr := range frs {
		for _, o := range fr.Obls {
			if filter != nil && !filter(o) {
				continue
			}
			id++
			jobs = append(jobs, job{fr, o, id})
		}
	}
	var wg sync.WaitGroup
	sem := make(chan struct{}, par)
	for _, j := range jobs {
		wg.Add(1)
		sem <- struct{}{}
		go func(j job) {
			defer wg.Done()
			defer func() { <-sem }()
			solveOne(j.fr, j.o, j.id, dir, timeoutS, "")
		}(j)
	}
	wg.Wait()
	// second chance, one at a time: an obligation that ran out of time while all cores were busy is solved again alone
	// (same time-out, same fall-backs), so that a loaded machine does not turn into an alarm
	for _, j := range jobs {
		if j.o.Cover || j.o.Result == "unsat" || j.o.Result == "sat" || j.o.Result == "error" {
			continue
		}
		solveOne(j.fr, j.o, j.id, dir, timeoutS, "x")
	}
}

func solveOne(fr *FuncResult, o *Obl, id int, dir string, timeoutS int, suffix string) {
	type jobT struct {
		fr *FuncResult
		o  *Obl
		id int
	}
	j := jobT{fr, o, id}
	{
			script := j.fr.Enc.script(j.o)
			base := fmt.Sprintf("o%04d%s", j.id, suffix)
			to := timeoutS
			if j.o.Cover {
				// vacuity: the quantifier-free part of the assumptions must be satisfiable (cheap, decisive when unsat);
				// the full query is only attempted briefly
				to = 2
				script = relaxScript(script)
			}
			var out solveOut
			if suffix != "" {
				out = solveWide(script, dir, base, to)
			} else {
				out = solveScript(script, dir, base, to)
			}
			j.o.Result = out.result
			j.o.Backend = out.backend
			j.o.Secs = out.secs
			if out.result == "error" {
				j.o.Model = out.raw
			}
			if out.result == "sat" && !j.o.Cover {
				j.o.Model = getModel(script, dir, base, timeoutS, out.backend)
			}
			if (out.result == "timeout" || out.result == "unknown") && !j.o.Cover {
				// retry with an explicit case split on the in-place/realloc outcome of each append
				if so, ok := splitSolve(script, dir, base, to, j.fr.Enc.splitVars[:j.o.NSplit]); ok {
					out = so
					j.o.Result = out.result
					j.o.Backend = out.backend
					j.o.Secs += out.secs
				}
			}
			if (out.result == "timeout" || out.result == "unknown") && !j.o.Cover {
				// retry conjunct by conjunct (each with its own cone of relevant assumptions)
				if cs := conjuncts(j.o.Cond); len(cs) > 1 && len(cs) <= 16 {
					allOK := true
					total := 0.0
					backend := ""
					for ci, c := range cs {
						oc := *j.o
						oc.Cond = c
						sc := j.fr.Enc.script(&oc)
						cto := to
						if cto > 15 {
							cto = 15
						}
						so := solveScript(sc, dir, fmt.Sprintf("%sc%d", base, ci), cto)
						if so.result != "unsat" {
							if ss, ok := splitSolve(sc, dir, fmt.Sprintf("%sc%d", base, ci), cto, j.fr.Enc.splitVars[:j.o.NSplit]); ok {
								so = ss
							}
						}
						total += so.secs
						if so.result != "unsat" {
							allOK = false
							break
						}
						backend = so.backend
					}
					if allOK {
						j.o.Result = "unsat"
						j.o.Backend = backend + "+conj"
						j.o.Secs += total
						out.result = "unsat"
					}
				}
			}
			if (out.result == "timeout" || out.result == "unknown") && !j.o.Cover {
				// model search on the quantifier-free relaxation (a candidate input only: believed only if the replay confirms it)
				relaxed := relaxScript(script)
				r2 := solveScript(relaxed, dir, base+"r", 5)
				if r2.result == "sat" {
					j.o.Relaxed = relaxed
					j.o.RelaxedBackend = r2.backend
					j.o.Model = "candidate model from the quantifier-free relaxation:\n" + getModel(relaxed, dir, base+"r", 5, r2.backend)
				}
			}
	}
}


// relaxScript drops every quantified assertion (over-approximates the set of models).
func relaxScript(script string) string {
	var out []string
	for _, ln := range strings.Split(script, "\n") {
		if strings.HasPrefix(ln, "(assert") && (strings.Contains(ln, "(forall ") || strings.Contains(ln, "(exists ")) {
			continue
		}
		out = append(out, ln)
	}
	return strings.Join(out, "\n")
}

var reFits = regexp.MustCompile(`\(declare-const (ap_fits![0-9]+) Bool\)`)

// splitSolve: discharge by cases over the append outcome booleans (all cases must be unsat).
func splitSolve(script, dir, base string, timeoutS int, branchVars []string) (solveOut, bool) {
	m := reFits.FindAllStringSubmatch(script, -1)
	if len(m) > 3 {
		m = m[len(m)-3:]
	}
	// add the branch conditions closest to the obligation (at most 5 split variables in all)
	for i := len(branchVars) - 1; i >= 0 && len(m) < 5; i-- {
		if strings.Contains(script, "(declare-const "+branchVars[i]+" Bool)") {
			m = append(m, []string{"", branchVars[i]})
		}
	}
	if len(m) == 0 {
		return solveOut{}, false
	}
	if timeoutS > 10 {
		timeoutS = 10
	}
	total := 0.0
	backend := ""
	for mask := 0; mask < 1<<uint(len(m)); mask++ {
		extra := ""
		for i, x := range m {
			if mask&(1<<uint(i)) != 0 {
				extra += "(assert " + x[1] + ")\n"
			} else {
				extra += "(assert (not " + x[1] + "))\n"
			}
		}
		cand := strings.Replace(script, "(check-sat)\n", extra+"(check-sat)\n", 1)
		o := solveScript(cand, dir, fmt.Sprintf("%ss%d", base, mask), timeoutS)
		if os.Getenv("RTV_DEBUG") != "" {
			fmt.Fprintf(os.Stderr, "split %s mask %d/%d: %s %s %.2fs\n", base, mask, 1<<uint(len(m)), o.result, o.backend, o.secs)
		}
		total += o.secs
		if o.result != "unsat" {
			return solveOut{}, false
		}
		backend = o.backend
	}
	return solveOut{result: "unsat", backend: backend + "+split", secs: total}, true
}

// conjuncts splits a term of the form (and a b ...) into its (flattened) top-level conjuncts.
func conjuncts(t string) []string {
	t = strings.TrimSpace(t)
	if strings.HasPrefix(t, "(forall (") && strings.HasSuffix(t, ")") {
		// (forall B (=> G (and a b))) == (forall B (=> G a)) and (forall B (=> G b))
		if parts := sexprArgs(t[1 : len(t)-1]); len(parts) == 3 {
			binders, body := parts[1], parts[2]
			if strings.HasPrefix(body, "(=> ") {
				if bp := sexprArgs(body[1 : len(body)-1]); len(bp) == 3 {
					if cs := conjuncts(bp[2]); len(cs) > 1 {
						var out []string
						for _, c := range cs {
							out = append(out, fmt.Sprintf("(forall %s (=> %s %s))", binders, bp[1], c))
						}
						return out
					}
				}
			} else if cs := conjuncts(body); len(cs) > 1 {
				var out []string
				for _, c := range cs {
					out = append(out, fmt.Sprintf("(forall %s %s)", binders, c))
				}
				return out
			}
		}
		return []string{t}
	}
	if !strings.HasPrefix(t, "(and ") || !strings.HasSuffix(t, ")") {
		return []string{t}
	}
	body := t[5 : len(t)-1]
	var out []string
	depth, start := 0, 0
	inBar := false
	flush := func(end int) {
		if x := strings.TrimSpace(body[start:end]); x != "" {
			out = append(out, conjuncts(x)...)
		}
	}
	for i := 0; i < len(body); i++ {
		switch c := body[i]; {
		case c == '|':
			inBar = !inBar
		case inBar:
		case c == '(':
			depth++
		case c == ')':
			depth--
			if depth < 0 {
				return []string{t} // not a single (and ...) term
			}
		case (c == ' ' || c == '\n') && depth == 0:
			flush(i)
			start = i + 1
		}
	}
	flush(len(body))
	return out
}

// sexprArgs splits the inside of one parenthesised term into its top-level elements.
func sexprArgs(body string) []string {
	var out []string
	depth, start := 0, 0
	inBar := false
	flush := func(end int) {
		if x := strings.TrimSpace(body[start:end]); x != "" {
			out = append(out, x)
		}
	}
	for i := 0; i < len(body); i++ {
		switch c := body[i]; {
		case c == '|':
			inBar = !inBar
		case inBar:
		case c == '(':
			depth++
		case c == ')':
			depth--
		case (c == ' ' || c == '\n') && depth == 0:
			flush(i)
			start = i + 1
		}
	}
	flush(len(body))
	return out
}
