package main

// Solver portfolio.

import (
	"bytes"
	"context"
	"fmt"
	"os"
	"os/exec"
	"path/filepath"
	"strings"
	"sync"
	"time"
)

type Solver struct {
	Name string
	Args func(timeoutS int, file string) []string
}

var solvers = []Solver{
	{"z3-new", func(t int, f string) []string {
		return []string{"z3-new", fmt.Sprintf("-T:%d", t), "smt.random_seed=1", f}
	}},
	{"z3", func(t int, f string) []string { return []string{"z3", fmt.Sprintf("-T:%d", t), "smt.random_seed=1", f} }},
	{"cvc5", func(t int, f string) []string {
		return []string{"cvc5", fmt.Sprintf("--tlimit=%d", t*1000), "--full-saturate-quant", "--seed=1", f}
	}},
}

type solveOut struct {
	result  string
	backend string
	secs    float64
	raw     string
}

func runSolver(s Solver, timeoutS int, file string) solveOut {
	args := s.Args(timeoutS, file)
	ctx, cancel := context.WithTimeout(context.Background(), time.Duration(timeoutS+2)*time.Second)
	defer cancel()
	cmd := exec.CommandContext(ctx, args[0], args[1:]...)
	var out bytes.Buffer
	cmd.Stdout = &out
	cmd.Stderr = &out
	t0 := time.Now()
	cmd.Run()
	secs := time.Since(t0).Seconds()
	text := out.String()
	first := strings.TrimSpace(strings.SplitN(text, "\n", 2)[0])
	res := "unknown"
	switch {
	case first == "unsat":
		res = "unsat"
	case first == "sat":
		res = "sat"
	case strings.Contains(first, "timeout") || ctx.Err() != nil:
		res = "timeout"
	case strings.HasPrefix(first, "(error") || strings.Contains(text, "(error"):
		res = "error"
	}
	return solveOut{res, s.Name, secs, text}
}

// solveScript tries the primary solver, then races the others.
func solveScript(script, dir, base string, timeoutS int) solveOut {
	file := filepath.Join(dir, base+".smt2")
	os.WriteFile(file, []byte(script), 0644)
	r := runSolver(solvers[0], timeoutS, file)
	if r.result == "unsat" || r.result == "sat" {
		return r
	}
	ch := make(chan solveOut, 2)
	for _, s := range solvers[1:] {
		go func(s Solver) { ch <- runSolver(s, timeoutS, file) }(s)
	}
	best := r
	for i := 0; i < 2; i++ {
		o := <-ch
		if o.result == "unsat" || o.result == "sat" {
			if best.result != "unsat" {
				best = o
			}
		} else if best.result == "error" && o.result != "error" {
			best = o
		}
	}
	return best
}

func getModel(script, dir, base string, timeoutS int, backend string) string {
	file := filepath.Join(dir, base+".model.smt2")
	os.WriteFile(file, []byte(script+"(get-model)\n"), 0644)
	for _, s := range solvers {
		if s.Name == backend {
			o := runSolver(s, timeoutS, file)
			return o.raw
		}
	}
	return ""
}

// dischargeAll solves all obligations of the given function results in parallel.
func dischargeAll(frs []*FuncResult, dir string, timeoutS, par int, filter func(*Obl) bool) {
	type job struct {
		fr *FuncResult
		o  *Obl
		id int
	}
	var jobs []job
	id := 0
	for _, fr := range frs {
		for _, o := range fr.Obls {
			if filter != nil && !filter(o) {
				continue
			}
			id++
			jobs = append(jobs, job{fr, o, id})
		}
	}
	var wg sync.WaitGroup
	sem := make(chan struct{}, par)
	for _, j := range jobs {
		wg.Add(1)
		sem <- struct{}{}
		go func(j job) {
			defer wg.Done()
			defer func() { <-sem }()
			script := j.fr.Enc.script(j.o)
			base := fmt.Sprintf("o%04d", j.id)
			to := timeoutS
			if j.o.Cover {
				// vacuity: the quantifier-free part of the assumptions must be satisfiable (cheap, decisive when unsat);
				// the full query is only attempted briefly
				to = 2
				script = relaxScript(script)
			}
			out := solveScript(script, dir, base, to)
			j.o.Result = out.result
			j.o.Backend = out.backend
			j.o.Secs = out.secs
			if out.result == "error" {
				j.o.Model = out.raw
			}
			if out.result == "sat" && !j.o.Cover {
				j.o.Model = getModel(script, dir, base, timeoutS, out.backend)
			}
			if (out.result == "timeout" || out.result == "unknown") && !j.o.Cover {
				// model search on the quantifier-free relaxation (a candidate input only: believed only if the replay confirms it)
				relaxed := relaxScript(script)
				r2 := solveScript(relaxed, dir, base+"r", 5)
				if r2.result == "sat" {
					j.o.Relaxed = relaxed
					j.o.RelaxedBackend = r2.backend
					j.o.Model = "candidate model from the quantifier-free relaxation:\n" + getModel(relaxed, dir, base+"r", 5, r2.backend)
				}
			}
		}(j)
	}
	wg.Wait()
}

// relaxScript drops every quantified assertion (over-approximates the set of models).
func relaxScript(script string) string {
	var out []string
	for _, ln := range strings.Split(script, "\n") {
		if strings.HasPrefix(ln, "(assert") && (strings.Contains(ln, "(forall ") || strings.Contains(ln, "(exists ")) {
			continue
		}
		out = append(out, ln)
	}
	return strings.Join(out, "\n")
}
