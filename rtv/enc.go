package main

// Encoding context: declarations, assertions, obligations, symbolic state, memory model.

import (
	"sync"
	"fmt"
	"go/token"
	"go/types"
	"os"
	"regexp"
	"sort"
	"strings"

	"golang.org/x/tools/go/ssa"
)

type Val struct {
	T     string // SMT term
	Loc   *Loc   // for pointers with a known location
	Tuple []Val
	Clo   *Closure
	Typ   types.Type
}

type Closure struct {
	Fn       *ssa.Function
	Bindings []Val
}

const (
	LField = iota
	LElem
	LCell
	LGlobal
)

type PathStep struct {
	Field  int    // >=0: field of datatype Sort
	Sort   string // struct datatype sort (for field steps)
	NField int
	Index  string // array index term (if Field < 0)
}

type Loc struct {
	Kind  int
	Ref   string // struct ref / backing array ref / cell ref
	Heap  string // heap name
	HSort string // sort of values stored at this heap location (before Path)
	Idx   string // LElem: absolute index
	Path  []PathStep
	Typ   types.Type // type of pointed-to value (after Path)
}

type State struct {
	heaps map[string]string
	alloc string
	// symbolic states (used to translate the body of an opaque spec function): every heap read returns a bound
	// variable and is recorded
	symbolic bool
	reads    *[]heapRead
}

type heapRead struct{ name, sort, v string }

func (s *State) clone() *State {
	n := &State{heaps: make(map[string]string, len(s.heaps)), alloc: s.alloc, symbolic: s.symbolic, reads: s.reads}
	for k, v := range s.heaps {
		n.heaps[k] = v
	}
	return n
}

type item struct {
	text  string
	block int // top-frame basic block under which the assertion was generated (-1: global)
}

type Obl struct {
	Name           string
	Kind           string
	Props          []string
	Fn             string
	Guard          string
	Cond           string
	Prefix         int // number of items visible
	NDecl          int
	Pos            token.Position
	Note           string
	Result         string // unsat / sat / unknown / timeout
	Backend        string
	Secs           float64
	Model          string
	Cover          bool // reachability cover query: expected SAT
	NSplit         int
	Block          int
	Enc            *Enc
	Relaxed        string
	RelaxedBackend string
}

type Enc struct {
	P         *Program
	decls     []string
	declared  map[string]bool
	items     []item
	obls      []*Obl
	scriptMu  sync.Mutex
	mute      int // >0: obligations are neither recorded nor assumed (see oblige)
	n         int
	heapSort  map[string]string
	heapType  map[string]types.Type
	notes     map[string]bool // assumptions made during encoding
	strLits   map[string]string
	fnName    string
	usesSlt   bool
	usesStrOp bool
	oblNames  map[string]int
	errs      []string
	opaques   map[string]*opaqueInfo
	splitVars []string // boolean constants that are branch conditions (candidates for case splits)
	// view: a function may be proved in several views; each view assumes and proves only the untagged clauses and
	// the clauses tagged with its name (keeps the VCs small). Safety obligations belong to the primary view "".
	view string
	// cone-of-influence filtering: assertions are tagged with the top-frame block that generated them; an obligation
	// only sees the assertions of blocks that can reach its own block
	curBlock int
	topFn    *ssa.Function
	anc      map[int]map[int]bool
}

func (e *Enc) inView(cl *Clause) bool { return cl.View == "" || cl.View == e.view }
func (e *Enc) primary() bool          { return e.view == "" }

func newEnc(p *Program, fn string) *Enc {
	return &Enc{curBlock: -1, P: p, declared: map[string]bool{}, heapSort: map[string]string{}, heapType: map[string]types.Type{}, notes: map[string]bool{}, strLits: map[string]string{}, fnName: fn, oblNames: map[string]int{}, opaques: map[string]*opaqueInfo{}}
}

func (e *Enc) fresh(prefix, sort string) string {
	e.n++
	name := fmt.Sprintf("%s!%d", sanitize(prefix), e.n)
	e.decl(name, sort)
	return name
}

func (e *Enc) decl(name, sort string) {
	if e.declared[name] {
		return
	}
	e.declared[name] = true
	e.decls = append(e.decls, fmt.Sprintf("(declare-const %s %s)", name, sort))
}

func (e *Enc) declFun(name string, args []string, res string) {
	if e.declared[name] {
		return
	}
	e.declared[name] = true
	e.decls = append(e.decls, fmt.Sprintf("(declare-fun %s (%s) %s)", name, strings.Join(args, " "), res))
}

func (e *Enc) assert(t string) {
	if t == "" || t == "true" {
		return
	}
	e.items = append(e.items, item{t, e.curBlock})
}

// assertGlobal: a fact that does not belong to a program point (definitions of spec symbols, string literals).
func (e *Enc) assertGlobal(t string) {
	if t == "" || t == "true" {
		return
	}
	e.items = append(e.items, item{t, -1})
}

func (e *Enc) assume(guard, t string) {
	if t == "" || t == "true" {
		return
	}
	e.assert(implies(guard, t))
}

func (e *Enc) note(s string) { e.notes[s] = true }

func (e *Enc) errorf(f string, a ...interface{}) {
	e.errs = append(e.errs, fmt.Sprintf(f, a...))
}

// define introduces a named constant equal to term (keeps terms small).
func (e *Enc) define(prefix, sort, term string) string {
	if len(term) < 24 && !strings.ContainsAny(term, " ") {
		return term
	}
	n := e.fresh(prefix, sort)
	e.assert(eq(n, term))
	return n
}

func (e *Enc) oblige(kind, name string, props []string, guard, cond string, pos token.Position, note string) *Obl {
	if e.mute > 0 {
		// re-execution of code whose obligations were already generated for arbitrary arguments (sort.Search's
		// characterisation of its result): neither a new obligation nor an assumption
		return &Obl{Name: name, Kind: kind}
	}
	full := name
	if e.view != "" {
		full += "@" + e.view
	}
	e.oblNames[full]++
	if k := e.oblNames[full]; k > 1 {
		full = fmt.Sprintf("%s#%d", full, k)
	}
	o := &Obl{Name: full, Kind: kind, Props: props, Fn: e.fnName, Guard: guard, Cond: cond, Prefix: len(e.items), NDecl: len(e.decls), Pos: pos, Note: note, NSplit: len(e.splitVars), Enc: e, Block: e.curBlock}
	e.obls = append(e.obls, o)
	// after checking, the condition may be assumed
	e.assume(guard, cond)
	return o
}

// obligeNoAssume: like oblige, but the condition is not assumed afterwards (used for postconditions, which are
// independent of each other).
func (e *Enc) obligeNoAssume(kind, name string, props []string, guard, cond string, pos token.Position, note string) *Obl {
	n := len(e.items)
	o := e.oblige(kind, name, props, guard, cond, pos, note)
	e.items = e.items[:n]
	return o
}

// cover adds a reachability query (expected sat)
func (e *Enc) cover(name string, props []string, guard string) {
	if e.view != "" {
		name += "@" + e.view
	}
	o := &Obl{Name: name, Kind: "cover", Props: props, Fn: e.fnName, Guard: guard, Cond: "false", Prefix: len(e.items), NDecl: len(e.decls), Cover: true, Enc: e, Block: e.curBlock}
	e.obls = append(e.obls, o)
}

// ---------- heaps ----------

func (e *Enc) heapInit(name, sort string) string {
	e.heapSort[name] = sort
	c := "H0_" + name
	if !e.declared[c] {
		e.decl(c, sort)
		saved := e.curBlock
		e.curBlock = -1 // typing invariant of the entry heap: not tied to the block that first reads it
		e.heapWf(name, c, "alloc0")
		e.curBlock = saved
	}
	return c
}

// freshHeap introduces an unconstrained heap value (havoc) with its typing invariant.
func (e *Enc) freshHeap(prefix, name, sort, alloc string) string {
	c := e.fresh(prefix+name, sort)
	e.heapWf(name, c, alloc)
	return c
}

// heapWf asserts the typing invariant of a heap value: stored integers are in range, stored references
// (pointers, slices, interfaces) were allocated no later than alloc.
func (e *Enc) heapWf(name, term, alloc string) {
	t, ok := e.heapType[name]
	if !ok || t == nil {
		return
	}
	nested := strings.HasPrefix(name, "H_")
	if nested {
		c := e.wfVal(fmt.Sprintf("(select (select %s r) k)", term), t, alloc)
		if c != "" && c != "true" {
			e.assert(fmt.Sprintf("(forall ((r Int) (k Int)) (! %s :pattern ((select (select %s r) k))))", c, term))
		}
		return
	}
	if strings.HasPrefix(name, "F_") || strings.HasPrefix(name, "C_") {
		c := e.wfVal(fmt.Sprintf("(select %s r)", term), t, alloc)
		if c != "" && c != "true" {
			e.assert(fmt.Sprintf("(forall ((r Int)) (! %s :pattern ((select %s r))))", c, term))
		}
	}
}

func (e *Enc) getHeap(st *State, name, sort string) string {
	if t, ok := st.heaps[name]; ok {
		return t
	}
	if st.symbolic {
		v := "hv!" + name
		st.heaps[name] = v
		e.heapSort[name] = sort
		*st.reads = append(*st.reads, heapRead{name, sort, v})
		return v
	}
	return e.heapInit(name, sort)
}

func (e *Enc) setHeap(st *State, name, sort, term string) {
	e.heapSort[name] = sort
	st.heaps[name] = e.define("h_"+name, sort, term)
}

func (e *Enc) tt() *TypeTable { return e.P.TT }

func (e *Enc) fieldHeap(structName string, f int, ft types.Type) (string, string) {
	n := fmt.Sprintf("F_%s_%d", structName, f)
	e.heapType[n] = ft
	return n, "(Array Int " + e.tt().sortOf(ft) + ")"
}

func (e *Enc) elemHeap(elem types.Type) (string, string) {
	n := "H_" + sanitize(e.tt().typeString(elem))
	e.heapType[n] = elem
	return n, "(Array Int (Array Int " + e.tt().sortOf(elem) + "))"
}

func (e *Enc) cellHeap(t types.Type) (string, string) {
	n := "C_" + sanitize(e.tt().typeString(t))
	e.heapType[n] = t
	return n, "(Array Int " + e.tt().sortOf(t) + ")"
}

func isStruct(t types.Type) (*types.Struct, bool) {
	s, ok := t.Underlying().(*types.Struct)
	return s, ok
}

func isArray(t types.Type) (*types.Array, bool) {
	a, ok := t.Underlying().(*types.Array)
	return a, ok
}

func (e *Enc) embRef(ref string, structName string, f int) string {
	bit := e.tt().embBit(structName, f)
	return fmt.Sprintf("(+ %s %s)", ref, pow2(embBase+bit))
}

// newRef allocates a fresh base reference.
func (e *Enc) newRef(st *State, hint string) string {
	r := e.fresh("ref_"+hint, sInt)
	e.assert(eq(r, fmt.Sprintf("(+ %s 1)", st.alloc)))
	e.assert(fmt.Sprintf("(< %s %s)", r, pow2(embBase-1)))
	st.alloc = r
	return r
}

func (e *Enc) isFresh(ref, allocAt string) string {
	return fmt.Sprintf("(> (base %s) %s)", ref, allocAt)
}

// reachAssume: typing assumption for a value read from memory / params at the current alloc level
func (e *Enc) wfVal(x string, t types.Type, alloc string) string {
	tt := e.tt()
	rc := tt.rangeConstraint(x, t)
	switch t.Underlying().(type) {
	case *types.Pointer, *types.Map:
		return and(rc, fmt.Sprintf("(<= (base %s) %s)", x, alloc))
	case *types.Slice:
		return and(rc, fmt.Sprintf("(<= (base (s-ref %s)) %s)", x, alloc))
	case *types.Interface:
		return and(rc, fmt.Sprintf("(<= (base (i-ref %s)) %s)", x, alloc))
	case *types.Struct:
		st, _ := isStruct(t)
		sn := tt.structSortOf(t, st)
		var cs []string
		for i := 0; i < st.NumFields(); i++ {
			cs = append(cs, e.wfVal(fmt.Sprintf("(%s_%d %s)", sn, i, x), st.Field(i).Type(), alloc))
		}
		return and(cs...)
	}
	return rc
}

// ---------- loads and stores ----------

func (e *Enc) pathLoad(base string, path []PathStep) string {
	for _, p := range path {
		if p.Field >= 0 {
			base = fmt.Sprintf("(%s_%d %s)", p.Sort, p.Field, base)
		} else {
			base = fmt.Sprintf("(select %s %s)", base, p.Index)
		}
	}
	return base
}

func (e *Enc) pathStore(base string, path []PathStep, v string) string {
	if len(path) == 0 {
		return v
	}
	p := path[0]
	if p.Field >= 0 {
		var fs []string
		for i := 0; i < p.NField; i++ {
			cur := fmt.Sprintf("(%s_%d %s)", p.Sort, i, base)
			if i == p.Field {
				cur = e.pathStore(cur, path[1:], v)
			}
			fs = append(fs, cur)
		}
		return fmt.Sprintf("(mk_%s %s)", p.Sort, strings.Join(fs, " "))
	}
	inner := e.pathStore(fmt.Sprintf("(select %s %s)", base, p.Index), path[1:], v)
	return fmt.Sprintf("(store %s %s %s)", base, p.Index, inner)
}

func (e *Enc) locBase(st *State, l *Loc) string {
	h := e.getHeap(st, l.Heap, l.HSort)
	switch l.Kind {
	case LField, LCell:
		return fmt.Sprintf("(select %s %s)", h, l.Ref)
	case LElem:
		return fmt.Sprintf("(select (select %s %s) %s)", h, l.Ref, l.Idx)
	case LGlobal:
		return h
	}
	panic("locBase")
}

func (e *Enc) loadLoc(st *State, l *Loc) string {
	return e.pathLoad(e.locBase(st, l), l.Path)
}

func (e *Enc) storeLoc(st *State, l *Loc, v string) {
	h := e.getHeap(st, l.Heap, l.HSort)
	nv := v
	if len(l.Path) > 0 {
		nv = e.pathStore(e.locBase(st, l), l.Path, v)
	}
	switch l.Kind {
	case LField, LCell:
		e.setHeap(st, l.Heap, l.HSort, fmt.Sprintf("(store %s %s %s)", h, l.Ref, nv))
	case LElem:
		e.setHeap(st, l.Heap, l.HSort, fmt.Sprintf("(store %s %s (store (select %s %s) %s %s))", h, l.Ref, h, l.Ref, l.Idx, nv))
	case LGlobal:
		e.setHeap(st, l.Heap, l.HSort, nv)
	}
}

// loadStruct builds the datatype value of the flattened struct at ref.
func (e *Enc) loadStruct(st *State, ref string, t types.Type) string {
	s, _ := isStruct(t)
	tt := e.tt()
	sn := tt.structSortOf(t, s)
	name := tt.structName(t)
	if s.NumFields() == 0 {
		return "mk_" + sn
	}
	var fs []string
	for i := 0; i < s.NumFields(); i++ {
		ft := s.Field(i).Type()
		if _, ok := isStruct(ft); ok {
			fs = append(fs, e.loadStruct(st, e.embRef(ref, name, i), ft))
		} else {
			hn, hs := e.fieldHeap(name, i, ft)
			fs = append(fs, fmt.Sprintf("(select %s %s)", e.getHeap(st, hn, hs), ref))
		}
	}
	return fmt.Sprintf("(mk_%s %s)", sn, strings.Join(fs, " "))
}

func (e *Enc) storeStruct(st *State, ref string, t types.Type, v string) {
	s, _ := isStruct(t)
	tt := e.tt()
	sn := tt.structSortOf(t, s)
	name := tt.structName(t)
	if len(v) > 30 {
		v = e.define("sv", sn, v)
	}
	for i := 0; i < s.NumFields(); i++ {
		ft := s.Field(i).Type()
		fv := fmt.Sprintf("(%s_%d %s)", sn, i, v)
		if _, ok := isStruct(ft); ok {
			e.storeStruct(st, e.embRef(ref, name, i), ft, fv)
		} else {
			hn, hs := e.fieldHeap(name, i, ft)
			e.setHeap(st, hn, hs, fmt.Sprintf("(store %s %s %s)", e.getHeap(st, hn, hs), ref, fv))
		}
	}
}

// structHeaps lists all field heaps of a flattened struct type (recursively).
func (e *Enc) structHeaps(t types.Type) []string {
	s, ok := isStruct(t)
	if !ok {
		return nil
	}
	name := e.tt().structName(t)
	var out []string
	for i := 0; i < s.NumFields(); i++ {
		ft := s.Field(i).Type()
		if _, ok := isStruct(ft); ok {
			out = append(out, e.structHeaps(ft)...)
		} else {
			hn, hs := e.fieldHeap(name, i, ft)
			e.heapSort[hn] = hs
			out = append(out, hn)
		}
	}
	return out
}

// locOfPtr returns the location a pointer value refers to (for non-struct pointees).
func (e *Enc) locOfPtr(v Val, pointee types.Type) *Loc {
	if v.Loc != nil {
		return v.Loc
	}
	if a, ok := isArray(pointee); ok {
		_ = a
		// pointer to array object: the array lives in the element heap at ref; as a whole value it is (select H ref)
		hn, hs := e.elemHeap(a.Elem())
		return &Loc{Kind: LCell, Ref: v.T, Heap: hn, HSort: hs, Typ: pointee}
	}
	hn, hs := e.cellHeap(pointee)
	return &Loc{Kind: LCell, Ref: v.T, Heap: hn, HSort: hs, Typ: pointee}
}

func (e *Enc) strLit(s string) string {
	if s == "" {
		return "str_empty"
	}
	if n, ok := e.strLits[s]; ok {
		return n
	}
	n := fmt.Sprintf("strlit_%d", len(e.strLits))
	e.strLits[s] = n
	e.decl(n, sStr)
	e.assertGlobal(fmt.Sprintf("(= (slen %s) %d)", n, len(s)))
	if len(s) <= 64 {
		for i := 0; i < len(s); i++ {
			e.assertGlobal(fmt.Sprintf("(= (sat %s %d) %d)", n, i, s[i]))
		}
	}
	return n
}

// ---------- output ----------

func (e *Enc) script(o *Obl) string {
	// obligations of one function are solved concurrently and share this encoding context (the ancestor cache is
	// filled lazily): one script at a time per context
	e.scriptMu.Lock()
	defer e.scriptMu.Unlock()
	var b strings.Builder
	b.WriteString(prelude)
	body := strings.Builder{}
	for _, d := range e.P.TT.structDecl {
		body.WriteString(d + "\n")
	}
	for _, d := range e.P.globalDecls {
		body.WriteString(d + "\n")
	}
	for _, d := range e.P.TT.zeroDecls {
		body.WriteString(d + "\n")
	}
	for _, d := range e.decls[:o.NDecl] {
		body.WriteString(d + "\n")
	}
	anc := e.ancestors(o.Block)
	var cand []string
	for _, it := range e.items[:o.Prefix] {
		if it.block >= 0 && anc != nil && !anc[it.block] {
			continue
		}
		cand = append(cand, it.text)
	}
	goal := and(o.Guard, not(o.Cond))
	if o.Cover {
		goal = o.Guard
	}
	for _, t := range relevantItems(cand, goal, o.Cover) {
		body.WriteString("(assert " + t + ")\n")
	}
	if o.Cover {
		body.WriteString("(assert " + o.Guard + ")\n")
	} else {
		body.WriteString("(assert " + and(o.Guard, not(o.Cond)) + ")\n")
	}
	bs := body.String()
	if strings.Contains(bs, "slt") {
		b.WriteString(sltAxioms)
	}
	if strings.Contains(bs, "scat") || strings.Contains(bs, "ssub") {
		b.WriteString(strOpAxioms)
	}
	b.WriteString(bs)
	b.WriteString("(check-sat)\n")
	return b.String()
}

func sortedNotes(m map[string]bool) []string {
	var out []string
	for k := range m {
		out = append(out, k)
	}
	sort.Strings(out)
	return out
}

// ancestors returns the set of top-frame blocks that can reach block b (including b), ignoring back edges.
func (e *Enc) ancestors(b int) map[int]bool {
	if b < 0 || e.topFn == nil || os.Getenv("RTV_NOCONE") != "" {
		return nil
	}
	if e.anc == nil {
		e.anc = map[int]map[int]bool{}
	}
	if a, ok := e.anc[b]; ok {
		return a
	}
	a := map[int]bool{b: true}
	stack := []*ssa.BasicBlock{e.topFn.Blocks[b]}
	for len(stack) > 0 {
		x := stack[len(stack)-1]
		stack = stack[:len(stack)-1]
		for _, p := range x.Preds {
			if x.Dominates(p) { // back edge p -> x
				continue
			}
			if !a[p.Index] {
				a[p.Index] = true
				stack = append(stack, p)
			}
		}
	}
	e.anc[b] = a
	return a
}

var reIdent = regexp.MustCompile(`[A-Za-z_][A-Za-z0-9_!.$]*`)
var reControl = regexp.MustCompile(`^(f[0-9]+_r[0-9]+|f[0-9]+_e[0-9]+_[0-9]+|f[0-9]+_disp|f[0-9]+_dispo|f[0-9]+_ret|alloc[A-Za-z0-9_]*|ref_[A-Za-z0-9_]*|search_g|ap_fits|ap_n|ap_cap)(![0-9]+)?$`)

var smtWords = map[string]bool{"assert": true, "forall": true, "exists": true, "and": true, "or": true, "not": true, "ite": true, "let": true,
	"select": true, "store": true, "true": true, "false": true, "Int": true, "Bool": true, "Array": true, "as": true, "const": true, "mod": true, "div": true,
	"pattern": true, "Str": true, "Slice": true, "Iface": true, "base": true, "slen": true, "sat": true, "slt": true, "scat": true, "ssub": true, "alim": true,
	"str_empty": true, "wf": true, "mk": true, "s": true, "i": true, "bor": true, "band": true, "bxor": true, "is": true, "exist": true, "notexist": true,
	"r": true, "k": true, "wr__": true, "slice": true, "iface": true, "ref": true, "off": true, "len": true, "cap": true, "tag": true}

func linkSyms(t string) []string {
	var out []string
	for _, id := range reIdent.FindAllString(t, -1) {
		if smtWords[id] || reControl.MatchString(id) {
			continue
		}
		if strings.Contains(id, "!q") || strings.HasPrefix(id, "mk_") || strings.HasPrefix(id, "S_") || strings.HasPrefix(id, "mk-") {
			continue // bound variables, datatype constructors / selectors
		}
		out = append(out, id)
	}
	return out
}

func ctlSyms(t string) []string {
	var out []string
	for _, id := range reIdent.FindAllString(t, -1) {
		if reControl.MatchString(id) {
			out = append(out, id)
		}
	}
	return out
}

// relevantItems keeps the assertions connected to the goal through shared symbols. Data symbols (heaps, SSA values,
// spec functions) link in both directions; control symbols (reachability and allocation constants) only pull in their
// own definitions "(= c term)". Dropping assumptions is always sound; it keeps the queries small.
func relevantItems(items []string, goal string, cover bool) []string {
	if os.Getenv("RTV_NOREL") != "" || cover {
		return items
	}
	rel := map[string]bool{}
	relCtl := map[string]bool{}
	for _, s := range linkSyms(goal) {
		rel[s] = true
	}
	for _, s := range ctlSyms(goal) {
		relCtl[s] = true
	}
	syms := make([][]string, len(items))
	ctls := make([][]string, len(items))
	defines := make([]string, len(items))
	keep := make([]bool, len(items))
	for i, t := range items {
		syms[i] = linkSyms(t)
		ctls[i] = ctlSyms(t)
		if strings.HasPrefix(t, "(= ") {
			f := strings.Fields(t[3:])
			if len(f) > 0 && reControl.MatchString(f[0]) {
				defines[i] = f[0]
			}
		}
	}
	for changed := true; changed; {
		changed = false
		for i := range items {
			if keep[i] {
				continue
			}
			hit := defines[i] != "" && relCtl[defines[i]]
			if !hit && len(syms[i]) == 0 {
				// only control symbols: relevant if it mentions a relevant control symbol
				for _, c := range ctls[i] {
					if relCtl[c] {
						hit = true
						break
					}
				}
				if len(ctls[i]) == 0 {
					hit = true
				}
			}
			if !hit {
				for _, s := range syms[i] {
					if rel[s] {
						hit = true
						break
					}
				}
			}
			if hit {
				keep[i] = true
				changed = true
				for _, s := range syms[i] {
					rel[s] = true
				}
				for _, c := range ctls[i] {
					relCtl[c] = true
				}
			}
		}
	}
	var out []string
	for i, t := range items {
		if keep[i] {
			out = append(out, t)
		}
	}
	return out
}
