package main

// Loading /repo into go/ssa, and static helper analyses.

import (
	"fmt"
	"go/token"
	"go/types"
	"os"
	"sort"
	"strings"

	"golang.org/x/tools/go/packages"
	"golang.org/x/tools/go/ssa"
	"golang.org/x/tools/go/ssa/ssautil"
)

type Program struct {
	Dir         string
	Fset        *token.FileSet
	Pkg         *ssa.Package
	TPkg        *types.Package
	Prog        *ssa.Program
	CS          *ContractSet
	TT          *TypeTable
	Funcs       map[string]*ssa.Function // by SSA-style name relative to package
	globalDecls []string
	writes      map[*ssa.Function]map[string]bool
	ErrGlobals  []string
	errMay      map[string]map[*ssa.Function]bool
	errFieldSeen bool
	ghostSorts  map[string]string
}

func goEnv() []string {
	env := os.Environ()
	env = append(env, "GOFLAGS=-mod=mod", "GOPROXY=off", "GOSUMDB=off", "GOTOOLCHAIN=local")
	return env
}

func loadProgram(dir string) (*Program, error) {
	cfg := &packages.Config{
		Mode:       packages.LoadAllSyntax,
		Dir:        dir,
		BuildFlags: []string{"-tags=verif"},
		Env:        goEnv(),
		Tests:      false,
	}
	pkgs, err := packages.Load(cfg, ".")
	if err != nil {
		return nil, err
	}
	if packages.PrintErrors(pkgs) > 0 {
		return nil, fmt.Errorf("package load errors")
	}
	prog, spkgs := ssautil.AllPackages(pkgs, ssa.GlobalDebug|ssa.BareInits)
	prog.Build()
	if len(spkgs) == 0 || spkgs[0] == nil {
		return nil, fmt.Errorf("no ssa package")
	}
	p := &Program{Dir: dir, Fset: prog.Fset, Pkg: spkgs[0], TPkg: spkgs[0].Pkg, Prog: prog, Funcs: map[string]*ssa.Function{}, writes: map[*ssa.Function]map[string]bool{}, ghostSorts: map[string]string{}}
	p.TT = newTypeTable(p.TPkg)
	cs, err := loadContracts(dir)
	if err != nil {
		return nil, err
	}
	p.CS = cs
	for fn := range ssautil.AllFunctions(prog) {
		if fn.Pkg != p.Pkg || fn.Synthetic != "" && fn.Blocks == nil {
			continue
		}
		if fn.Parent() != nil {
			continue
		}
		p.Funcs[p.fnName(fn)] = fn
	}
	p.initGlobals()
	theProgram = p
	return p, nil
}

// fnName: "getVarInt", "(*Writer).add", "(HashID).Size"
func (p *Program) fnName(fn *ssa.Function) string {
	if fn == nil {
		return "<nil>"
	}
	if fn.Pkg != nil && fn.Pkg != p.Pkg {
		return fn.String() // fully qualified
	}
	if fn.Pkg == nil && fn.Parent() == nil {
		return fn.String()
	}
	return fn.RelString(p.TPkg)
}

func (p *Program) initGlobals() {
	// error-valued package globals are modelled as distinct non-nil constants
	var names []string
	for name, m := range p.Pkg.Members {
		g, ok := m.(*ssa.Global)
		if !ok {
			continue
		}
		if types.Identical(g.Type().(*types.Pointer).Elem(), types.Universe.Lookup("error").Type()) {
			names = append(names, name)
		}
	}
	sort.Strings(names)
	p.ErrGlobals = names
	ext := []string{"io.EOF", "os.ErrNotExist"}
	all := append(append([]string{}, names...), ext...)
	for i, n := range all {
		c := "errG_" + sanitize(n)
		p.globalDecls = append(p.globalDecls, fmt.Sprintf("(declare-const %s Iface)", c))
		p.globalDecls = append(p.globalDecls, fmt.Sprintf("(assert (and (= (i-tag %s) 1) (= (i-ref %s) %d)))", c, c, 1+i)) // pre-allocated: below every alloc0 (>= 64), so a returned error may be one of them
	}
	p.globalDecls = append(p.globalDecls, "(assert (is-notexist errG_os_ErrNotExist))")
	p.globalDecls = append(p.globalDecls, "(assert (not (is-exist errG_os_ErrNotExist)))")
	for _, n := range names {
		c := "errG_" + sanitize(n)
		p.globalDecls = append(p.globalDecls, fmt.Sprintf("(assert (and (not (is-exist %s)) (not (is-notexist %s))))", c, c))
	}
}

func (p *Program) pos(pos token.Pos) token.Position {
	return p.Fset.Position(pos)
}

// ---------- loops ----------

type LoopInfo struct {
	Header  *ssa.BasicBlock
	Body    map[*ssa.BasicBlock]bool
	Latches []*ssa.BasicBlock
	Ordinal int
}

func findLoops(fn *ssa.Function) []*LoopInfo {
	var loops []*LoopInfo
	byHeader := map[*ssa.BasicBlock]*LoopInfo{}
	for _, b := range fn.Blocks {
		for _, s := range b.Succs {
			if s.Dominates(b) { // back edge b -> s
				li := byHeader[s]
				if li == nil {
					li = &LoopInfo{Header: s, Body: map[*ssa.BasicBlock]bool{s: true}}
					byHeader[s] = li
					loops = append(loops, li)
				}
				li.Latches = append(li.Latches, b)
				// collect body
				stack := []*ssa.BasicBlock{b}
				for len(stack) > 0 {
					x := stack[len(stack)-1]
					stack = stack[:len(stack)-1]
					if li.Body[x] {
						continue
					}
					li.Body[x] = true
					stack = append(stack, x.Preds...)
				}
			}
		}
	}
	// ordinal by source position of the header's loop statement; fall back on block index
	sort.Slice(loops, func(i, j int) bool {
		pi, pj := loopPos(loops[i]), loopPos(loops[j])
		if pi != pj {
			return pi < pj
		}
		return loops[i].Header.Index < loops[j].Header.Index
	})
	for i, l := range loops {
		l.Ordinal = i + 1
	}
	return loops
}

func loopPos(l *LoopInfo) token.Pos {
	// minimal valid position among instructions of the loop body
	var best token.Pos
	for b := range l.Body {
		for _, in := range b.Instrs {
			if p := in.Pos(); p.IsValid() && (best == 0 || p < best) {
				best = p
			}
		}
	}
	return best
}

// ---------- static write sets ----------

// ptrHeaps returns the heap names a store through addr may write.
func (p *Program) ptrHeaps(e *Enc, addr ssa.Value, seen map[ssa.Value]bool) []string {
	if seen[addr] {
		return nil
	}
	seen[addr] = true
	pt, ok := addr.Type().Underlying().(*types.Pointer)
	if !ok {
		return nil
	}
	elem := pt.Elem()
	switch a := addr.(type) {
	case *ssa.FieldAddr:
		st := a.X.Type().Underlying().(*types.Pointer).Elem()
		// inside a datatype value (slice element)?
		if inner := p.innerValueHeaps(e, a.X, map[ssa.Value]bool{}); inner != nil {
			return inner
		}
		if _, isS := isStruct(elem); isS {
			return e.structHeaps(elem)
		}
		hn, hs := e.fieldHeap(p.TT.structName(st), a.Field, elem)
		e.heapSort[hn] = hs
		return []string{hn}
	case *ssa.IndexAddr:
		if inner := p.innerValueHeaps(e, a.X, map[ssa.Value]bool{}); inner != nil {
			return inner
		}
		var et types.Type
		switch xt := a.X.Type().Underlying().(type) {
		case *types.Slice:
			et = xt.Elem()
		case *types.Pointer:
			et = xt.Elem().Underlying().(*types.Array).Elem()
		}
		hn, hs := e.elemHeap(et)
		e.heapSort[hn] = hs
		return []string{hn}
	case *ssa.Global:
		hn := "G_" + sanitize(a.Name())
		e.heapSort[hn] = p.TT.sortOf(elem)
		return []string{hn}
	case *ssa.Phi:
		var out []string
		for _, ed := range a.Edges {
			out = append(out, p.ptrHeaps(e, ed, seen)...)
		}
		return out
	}
	// Alloc, Parameter, FreeVar, call results, loads: by pointee type
	if _, isS := isStruct(elem); isS {
		return e.structHeaps(elem)
	}
	if at, isA := isArray(elem); isA {
		hn, hs := e.elemHeap(at.Elem())
		e.heapSort[hn] = hs
		return []string{hn}
	}
	hn, hs := e.cellHeap(elem)
	e.heapSort[hn] = hs
	return []string{hn}
}

// innerValueHeaps: if x is a pointer into a datatype value held in some heap (e.g. &slice[i] with struct elems,
// or &struct.arrayField), return the heap holding the enclosing value.
func (p *Program) innerValueHeaps(e *Enc, x ssa.Value, seen map[ssa.Value]bool) []string {
	switch a := x.(type) {
	case *ssa.IndexAddr:
		return p.ptrHeaps(e, a, seen)
	case *ssa.FieldAddr:
		pt := a.Type().Underlying().(*types.Pointer).Elem()
		if _, isA := isArray(pt); isA {
			return p.ptrHeaps(e, a, seen)
		}
		// pointer to embedded struct: flattened, not inner
		return nil
	}
	return nil
}

func (p *Program) staticWrites(e *Enc, fn *ssa.Function) map[string]bool {
	if w, ok := p.writes[fn]; ok {
		return w
	}
	w := map[string]bool{}
	p.writes[fn] = w // recursion guard (fixpoint approximated by one extra pass below)
	p.collectWrites(e, fn, w, map[*ssa.Function]bool{})
	return w
}

func (p *Program) collectWrites(e *Enc, fn *ssa.Function, w map[string]bool, seen map[*ssa.Function]bool) {
	if fn == nil || seen[fn] {
		return
	}
	seen[fn] = true
	if fn.Blocks == nil || (fn.Pkg != p.Pkg && !(fn.Parent() != nil && fn.Parent().Pkg == p.Pkg)) {
		// extern: from contract modifies
		if c := p.CS.Funcs[p.fnName(fn)]; c != nil {
			for _, m := range c.Modifies {
				if id, ok := m.Expr.(SIdent); ok {
					if _, isG := p.CS.Ghosts[id.Name]; isG {
						w["ghost_"+id.Name] = true
					}
				}
			}
		}
		return
	}
	for _, b := range fn.Blocks {
		for _, in := range b.Instrs {
			switch x := in.(type) {
			case *ssa.Store:
				for _, h := range p.ptrHeaps(e, x.Addr, map[ssa.Value]bool{}) {
					w[h] = true
				}
			case *ssa.MapUpdate:
			case ssa.CallInstruction:
				p.callWrites(e, x.Common(), w, seen)
			case *ssa.MakeClosure:
				p.collectWrites(e, x.Fn.(*ssa.Function), w, seen)
			}
		}
	}
	for _, af := range fn.AnonFuncs {
		p.collectWrites(e, af, w, seen)
	}
}

func (p *Program) callWrites(e *Enc, c *ssa.CallCommon, w map[string]bool, seen map[*ssa.Function]bool) {
	if c.IsInvoke() {
		for _, impl := range p.implementers(c.Value.Type(), c.Method) {
			p.collectWrites(e, impl, w, seen)
		}
		if ic := p.CS.Funcs[p.ifaceMethodName(c)]; ic != nil {
			p.contractGhostWrites(ic, w)
		}
		return
	}
	switch f := c.Value.(type) {
	case *ssa.Function:
		p.collectWrites(e, f, w, seen)
		if ct := p.CS.Funcs[p.fnName(f)]; ct != nil {
			p.contractGhostWrites(ct, w)
		}
	case *ssa.MakeClosure:
		p.collectWrites(e, f.Fn.(*ssa.Function), w, seen)
	case *ssa.Builtin:
		switch f.Name() {
		case "copy", "append":
			if len(c.Args) > 0 {
				if st, ok := c.Args[0].Type().Underlying().(*types.Slice); ok {
					hn, hs := e.elemHeap(st.Elem())
					e.heapSort[hn] = hs
					w[hn] = true
				}
			}
		}
	default:
		// unknown function value: anything
		w["*"] = true
	}
}

func (p *Program) contractGhostWrites(c *Contract, w map[string]bool) {
	for _, m := range c.Modifies {
		if id, ok := m.Expr.(SIdent); ok {
			if _, isG := p.CS.Ghosts[id.Name]; isG {
				w["ghost_"+id.Name] = true
			}
		}
	}
}

func (p *Program) ifaceMethodName(c *ssa.CallCommon) string {
	t := c.Value.Type()
	return strings.TrimPrefix(p.TT.typeString(t), "*") + "." + c.Method.Name()
}

// implementers: concrete methods in the package implementing iface method m.
func (p *Program) implementers(iface types.Type, m *types.Func) []*ssa.Function {
	it, ok := iface.Underlying().(*types.Interface)
	if !ok {
		return nil
	}
	var out []*ssa.Function
	var names []string
	for n := range p.Pkg.Members {
		names = append(names, n)
	}
	sort.Strings(names)
	for _, n := range names {
		tm, ok := p.Pkg.Members[n].(*ssa.Type)
		if !ok {
			continue
		}
		for _, T := range []types.Type{tm.Type(), types.NewPointer(tm.Type())} {
			if _, isI := T.Underlying().(*types.Interface); isI {
				continue
			}
			if !types.Implements(T, it) {
				continue
			}
			sel := p.Prog.MethodSets.MethodSet(T).Lookup(m.Pkg(), m.Name())
			if sel == nil {
				continue
			}
			f := p.Prog.MethodValue(sel)
			if f != nil {
				out = append(out, f)
			}
			break
		}
	}
	return out
}

// implementingTypes: the named types of the package (T or *T) that implement the interface.
func (p *Program) implementingTypes(iface types.Type) []types.Type {
	it, ok := iface.Underlying().(*types.Interface)
	if !ok {
		return nil
	}
	var out []types.Type
	var names []string
	for n := range p.Pkg.Members {
		names = append(names, n)
	}
	sort.Strings(names)
	for _, n := range names {
		tm, ok := p.Pkg.Members[n].(*ssa.Type)
		if !ok {
			continue
		}
		if _, isI := tm.Type().Underlying().(*types.Interface); isI {
			continue
		}
		if types.Implements(tm.Type(), it) {
			out = append(out, tm.Type())
		} else if types.Implements(types.NewPointer(tm.Type()), it) {
			out = append(out, types.NewPointer(tm.Type()))
		}
	}
	return out
}

// ---------- provenance of the package's own error values ----------

// mayReturnErr reports whether fn may return (or hand to its caller through a result) the package-level error value
// named g. Errors are values that must come from somewhere: fn can produce g only if fn itself loads the global, or if it
// calls - directly, through a closure it creates, through an interface whose implementations all lie in this package -
// a function that can. Calls of unknown function values (callbacks) count as "may"; interface calls are followed into
// the package's own implementations, and implementations outside the package are assumed, like every function outside
// the package, not to return the package's sentinel errors. The argument needs that no error value is parked in the
// heap: hasErrField is checked.
func (p *Program) mayReturnErr(fn *ssa.Function, g string) bool {
	if p.errMay == nil {
		p.errMay = map[string]map[*ssa.Function]bool{}
		p.errFieldSeen = p.hasErrField()
	}
	if p.errFieldSeen || fn == nil || fn.Blocks == nil {
		return true
	}
	m := p.errMay[g]
	if m == nil {
		m = map[*ssa.Function]bool{}
		p.errMay[g] = m
		// fixpoint over all functions of the package (members, methods, closures)
		all := map[*ssa.Function]bool{}
		var add func(f *ssa.Function)
		add = func(f *ssa.Function) {
			if f == nil || all[f] || f.Blocks == nil {
				return
			}
			all[f] = true
			for _, af := range f.AnonFuncs {
				add(af)
			}
		}
		for _, mem := range p.Pkg.Members {
			switch x := mem.(type) {
			case *ssa.Function:
				add(x)
			case *ssa.Type:
				for _, T := range []types.Type{x.Type(), types.NewPointer(x.Type())} {
					ms := p.Prog.MethodSets.MethodSet(T)
					for i := 0; i < ms.Len(); i++ {
						add(p.Prog.MethodValue(ms.At(i)))
					}
				}
			}
		}
		direct := func(f *ssa.Function) bool {
			for _, b := range f.Blocks {
				for _, in := range b.Instrs {
					for _, op := range in.Operands(nil) {
						if gl, ok := (*op).(*ssa.Global); ok && gl.Name() == g && gl.Pkg == p.Pkg {
							return true
						}
					}
					ci, ok := in.(ssa.CallInstruction)
					if !ok {
						continue
					}
					c := ci.Common()
					if c.IsInvoke() {
						// implementations outside the package are assumed not to return the package's sentinel errors
						// (same assumption as for any function outside the package); in-package ones are followed below
						continue
					}
					switch c.Value.(type) {
					case *ssa.Function, *ssa.Builtin, *ssa.MakeClosure:
					default:
						return true // unknown function value (callback)
					}
				}
			}
			return false
		}
		for f := range all {
			if direct(f) {
				m[f] = true
			}
		}
		for changed := true; changed; {
			changed = false
			for f := range all {
				if m[f] {
					continue
				}
				hit := false
				for _, b := range f.Blocks {
					for _, in := range b.Instrs {
						if mc, ok := in.(*ssa.MakeClosure); ok && m[mc.Fn.(*ssa.Function)] {
							hit = true
						}
						ci, ok := in.(ssa.CallInstruction)
						if !ok {
							continue
						}
						c := ci.Common()
						if c.IsInvoke() {
							for _, impl := range p.implementers(c.Value.Type(), c.Method) {
								if m[impl] {
									hit = true
								}
							}
							continue
						}
						if cf, ok := c.Value.(*ssa.Function); ok && cf.Pkg == p.Pkg && m[cf] {
							hit = true
						}
					}
				}
				if hit {
					m[f] = true
					changed = true
				}
			}
		}
	}
	if fn.Pkg != p.Pkg && !(fn.Parent() != nil && fn.Parent().Pkg == p.Pkg) {
		return false
	}
	return m[fn]
}

// hasErrField: does any struct type of the package keep an error (or an empty interface) in a field?
func (p *Program) hasErrField() bool {
	for _, mem := range p.Pkg.Members {
		tm, ok := mem.(*ssa.Type)
		if !ok {
			continue
		}
		st, ok := tm.Type().Underlying().(*types.Struct)
		if !ok {
			continue
		}
		for i := 0; i < st.NumFields(); i++ {
			ft := st.Field(i).Type()
			if isErrType(ft) {
				return true
			}
			if it, ok := ft.Underlying().(*types.Interface); ok && it.NumMethods() == 0 {
				return true
			}
		}
	}
	return false
}
